// vcheck: parent/child driver of the runtime monitors.
//
//	vcheck check <ID> <tier>        parent: supervise children, merge, write evidence, print verdict
//	vcheck worker <ID> --...        child: run one shard of a property's workload
//	vcheck replay <path>            re-run the single case recorded in a replay file
//	vcheck list
package main

import (
	"encoding/json"
	"flag"
	"fmt"
	"os"
	"path/filepath"
	"strconv"

	"verif/internal/mon"
	"verif/internal/props"
)

func seedFromEnv() int64 {
	if s := os.Getenv("VERIF_SEED"); s != "" {
		if v, err := strconv.ParseInt(s, 10, 64); err == nil {
			return v
		}
	}
	return 1
}

func verifDir() string {
	if d := os.Getenv("VERIF_DIR"); d != "" {
		return d
	}
	wd, _ := os.Getwd()
	return wd
}

func main() {
	if len(os.Args) < 2 {
		fmt.Println("usage: vcheck check <ID> <tier> | worker ... | replay <path> | list")
		os.Exit(2)
	}
	exe, _ := os.Executable()
	switch os.Args[1] {
	case "list":
		for _, id := range mon.IDs() {
			fmt.Println(id)
		}
	case "check":
		if len(os.Args) < 4 {
			fmt.Println("usage: vcheck check <ID> <tier>")
			os.Exit(2)
		}
		p := mon.Lookup(os.Args[2])
		if p == nil {
			fmt.Printf("INCONCLUSIVE property=%s reason=unknown property\n", os.Args[2])
			os.Exit(2)
		}
		tier := os.Args[3]
		if tier != "quick" && tier != "thorough" {
			fmt.Println("tier must be quick or thorough")
			os.Exit(2)
		}
		os.Exit(mon.Check(p, mon.Options{Exe: exe, VerifDir: verifDir(), Tier: tier, Seed: seedFromEnv(),
			HookOn: props.HookAvailable, Keep: os.Getenv("VERIF_KEEP") != ""}))
	case "replay":
		if len(os.Args) < 3 {
			fmt.Println("usage: vcheck replay <path>")
			os.Exit(2)
		}
		b, err := os.ReadFile(os.Args[2])
		if err != nil {
			fmt.Println(err)
			os.Exit(2)
		}
		var r struct {
			Property string `json:"property"`
			Case     string `json:"case"`
			Seed     int64  `json:"seed"`
			Tier     string `json:"tier"`
		}
		if err := json.Unmarshal(b, &r); err != nil {
			fmt.Println(err)
			os.Exit(2)
		}
		p := mon.Lookup(r.Property)
		if p == nil {
			fmt.Println("unknown property in replay file")
			os.Exit(2)
		}
		os.Exit(mon.Check(p, mon.Options{Exe: exe, VerifDir: verifDir(), Tier: r.Tier, Seed: r.Seed, Only: r.Case,
			HookOn: props.HookAvailable, Keep: os.Getenv("VERIF_KEEP") != ""}))
	case "worker":
		fs := flag.NewFlagSet("worker", flag.ExitOnError)
		tier := fs.String("tier", "quick", "")
		seed := fs.Int64("seed", 1, "")
		shard := fs.Int("shard", 0, "")
		nshards := fs.Int("nshards", 1, "")
		dir := fs.String("dir", "", "")
		only := fs.String("only", "", "")
		id := os.Args[2]
		fs.Parse(os.Args[3:])
		p := mon.Lookup(id)
		if p == nil {
			fmt.Println("unknown property")
			os.Exit(2)
		}
		if *dir == "" {
			*dir = filepath.Join(os.TempDir())
		}
		w, err := mon.NewW(id, *seed, *tier, *shard, *nshards, *only, *dir, props.HookAvailable)
		if err != nil {
			fmt.Println(err)
			os.Exit(2)
		}
		if p.StallDetector {
			w.StartStallDetector()
		}
		p.Run(w)
		w.End()
		if err := w.Finish(); err != nil {
			fmt.Println(err)
			os.Exit(2)
		}
	default:
		fmt.Println("unknown command")
		os.Exit(2)
	}
}
