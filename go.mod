module verif

go 1.23

require (
	github.com/TimothyStiles/poly v0.0.0
	github.com/google/go-cmp v0.4.1
	lukechampine.com/blake3 v1.0.0
)

require (
	github.com/mitchellh/go-wordwrap v1.0.0 // indirect
	github.com/mroth/weightedrand v0.2.1 // indirect
	golang.org/x/xerrors v0.0.0-20191204190536-9bdfabe68543 // indirect
)

replace github.com/TimothyStiles/poly => /repo
