// Package gen holds workload generators: abstract records and independent writers
// that lay them out in the file formats poly parses. Nothing here imports poly.
package gen

import (
	"fmt"
	"math/rand"
	"strings"

	"verif/internal/oracle"
)

// GBRef is one REFERENCE block.
type GBRef struct {
	Range, Authors, Title, Journal, PubMed, Remark string
}

// Qualifier kinds.
const (
	QualText        = iota // /key="text"
	QualNumber             // /key=1
	QualFlag               // /key
	QualTranslation        // /translation="LETTERS", hard-wrapped
)

// GBQual is one feature qualifier.
type GBQual struct {
	Key, Value string
	Kind       int
}

// GBFeature is one feature-table entry.
type GBFeature struct {
	Key     string
	Loc     *oracle.Loc
	LocText string // set by the reader (verbatim location text); writers use Loc
	Quals   []GBQual
}

// GBExtra is an extra top-level keyword block (COMMENT, DBLINK, ...).
type GBExtra struct{ Key, Text string }

// GBRecord is an abstract GenBank record.
type GBRecord struct {
	Name     string
	MolType  string
	Topology string // "linear", "circular" or ""
	Division string
	Date     string

	Definition, Accession, Version, Keywords, Source, OrgName string
	Lineage                                                   []string // taxonomy lines under ORGANISM

	Refs     []GBRef
	Extras   []GBExtra
	Features []GBFeature
	Seq      string

	lenStated int      // reader only: length stated on the LOCUS line
	refIndex  []string // reader only: reference numbers as written
}

// Organism is the value a reader should report for the ORGANISM block: name and lineage lines re-joined.
func (r *GBRecord) Organism() string {
	return strings.Join(append([]string{r.OrgName}, r.Lineage...), " ")
}

// GBLayout are the legal layout choices of the writer.
type GBLayout struct {
	Width        int  // maximum line width for wrapped text (60..79)
	LocWidth     int  // width available to a location line (20..58)
	FinalNewline bool // newline after the last "//"
	LocusColumns bool // LOCUS by release-note columns (else token-separated with varying spacing)
}

// RandLayout draws a layout.
func RandLayout(r *rand.Rand) GBLayout {
	return GBLayout{Width: 60 + r.Intn(20), LocWidth: 20 + r.Intn(39), FinalNewline: r.Intn(3) != 0, LocusColumns: r.Intn(2) == 0}
}

// wrapWords wraps space-separated words greedily to the given width; a single longer word gets its own line.
func wrapWords(text string, width int) []string {
	words := strings.Split(text, " ")
	var lines []string
	cur := ""
	for _, w := range words {
		switch {
		case cur == "":
			cur = w
		case len(cur)+1+len(w) <= width:
			cur += " " + w
		default:
			lines = append(lines, cur)
			cur = w
		}
	}
	return append(lines, cur)
}

func hardWrap(text string, width int) []string {
	var lines []string
	for len(text) > width {
		lines = append(lines, text[:width])
		text = text[width:]
	}
	return append(lines, text)
}

// keywordBlock lays out "KEYWORD     text" with continuation lines at column 13.
// indent is the number of blanks before the keyword (0 for top level, 2 or 3 for sub-keywords).
func keywordBlock(sb *strings.Builder, indent int, key, text string, width int) {
	head := strings.Repeat(" ", indent) + key
	for len(head) < 12 {
		head += " "
	}
	// a run of blanks inside the text belongs to the text (VERSION "U49845.1  GI:1293613", structured comments):
	// it is never a place to break the line
	lines := wrapWords(strings.ReplaceAll(text, "  ", "\x00\x00"), width-12)
	for i := range lines {
		lines[i] = strings.ReplaceAll(lines[i], "\x00", " ")
	}
	sb.WriteString(strings.TrimRight(head+lines[0], " ") + "\n")
	for _, l := range lines[1:] {
		sb.WriteString(strings.Repeat(" ", 12) + l + "\n")
	}
}

// WrapLocation breaks a location text after commas so that no line exceeds width (if possible).
func WrapLocation(text string, width int) []string {
	var lines []string
	for len(text) > width {
		cut := strings.LastIndex(text[:width], ",")
		if cut < 0 {
			break
		}
		lines = append(lines, text[:cut+1])
		text = text[cut+1:]
	}
	return append(lines, text)
}

// QualText is the text of a qualifier as it stands in the file before wrapping.
func (q GBQual) Text() string {
	switch q.Kind {
	case QualFlag:
		return "/" + q.Key
	case QualNumber:
		return "/" + q.Key + "=" + q.Value
	default:
		return "/" + q.Key + "=\"" + q.Value + "\""
	}
}

// WriteGB lays a record out as GenBank flat-file text, ending with "//" and a newline.
func WriteGB(rec *GBRecord, lay GBLayout) string {
	var sb strings.Builder
	// LOCUS
	top := rec.Topology
	if lay.LocusColumns && len(rec.Name) <= 16 {
		// release-note columns: name 13-28, length 30-40, bp 42-43, molecule 48-53, topology 56-63, division 65-67, date 69-79
		fmt.Fprintf(&sb, "LOCUS       %-16s %11d bp    %-6s  %-8s %-3s %s\n", rec.Name, len(rec.Seq), rec.MolType, top, rec.Division, rec.Date)
	} else {
		sp := func(n int) string { return strings.Repeat(" ", n) }
		s := "LOCUS" + sp(7) + rec.Name + sp(1+len(rec.Name)%5) + fmt.Sprint(len(rec.Seq)) + " bp" + sp(1+len(rec.Seq)%4) + rec.MolType + sp(2+len(rec.Name)%3)
		if top != "" {
			s += top + sp(1+len(rec.Date)%3)
		}
		s += rec.Division + sp(1+len(rec.Name)%2) + rec.Date
		sb.WriteString(s + "\n")
	}
	keywordBlock(&sb, 0, "DEFINITION", rec.Definition, lay.Width)
	keywordBlock(&sb, 0, "ACCESSION", rec.Accession, lay.Width)
	keywordBlock(&sb, 0, "VERSION", rec.Version, lay.Width)
	keywordBlock(&sb, 0, "KEYWORDS", rec.Keywords, lay.Width)
	keywordBlock(&sb, 0, "SOURCE", rec.Source, lay.Width)
	// ORGANISM: name on the keyword line, lineage lines as written
	sb.WriteString("  ORGANISM  " + rec.OrgName + "\n")
	for _, l := range rec.Lineage {
		sb.WriteString(strings.Repeat(" ", 12) + l + "\n")
	}
	for i, ref := range rec.Refs {
		keywordBlock(&sb, 0, "REFERENCE", fmt.Sprintf("%d  %s", i+1, ref.Range), lay.Width)
		if ref.Authors != "" {
			keywordBlock(&sb, 2, "AUTHORS", ref.Authors, lay.Width)
		}
		if ref.Title != "" {
			keywordBlock(&sb, 2, "TITLE", ref.Title, lay.Width)
		}
		if ref.Journal != "" {
			keywordBlock(&sb, 2, "JOURNAL", ref.Journal, lay.Width)
		}
		if ref.PubMed != "" {
			keywordBlock(&sb, 3, "PUBMED", ref.PubMed, lay.Width)
		}
		if ref.Remark != "" {
			keywordBlock(&sb, 2, "REMARK", ref.Remark, lay.Width)
		}
	}
	for _, e := range rec.Extras {
		keywordBlock(&sb, 0, e.Key, e.Text, lay.Width)
	}
	sb.WriteString("FEATURES             Location/Qualifiers\n")
	for _, f := range rec.Features {
		locLines := WrapLocation(f.Loc.String(), lay.LocWidth)
		sb.WriteString(fmt.Sprintf("     %-16s%s\n", f.Key, locLines[0]))
		for _, l := range locLines[1:] {
			sb.WriteString(strings.Repeat(" ", 21) + l + "\n")
		}
		for _, q := range f.Quals {
			var lines []string
			if q.Kind == QualTranslation {
				lines = hardWrap(q.Text(), lay.Width-21)
			} else {
				// a run of blanks inside a value belongs to the value: lines are broken at single blanks only
				lines = wrapWords(strings.ReplaceAll(q.Text(), "  ", "\x00\x00"), lay.Width-21)
				for i := range lines {
					lines[i] = strings.ReplaceAll(lines[i], "\x00", " ")
				}
			}
			for _, l := range lines {
				sb.WriteString(strings.Repeat(" ", 21) + l + "\n")
			}
		}
	}
	sb.WriteString("ORIGIN\n")
	for i := 0; i < len(rec.Seq); i += 60 {
		end := i + 60
		if end > len(rec.Seq) {
			end = len(rec.Seq)
		}
		fmt.Fprintf(&sb, "%9d", i+1)
		for j := i; j < end; j += 10 {
			e := j + 10
			if e > end {
				e = end
			}
			sb.WriteString(" " + rec.Seq[j:e])
		}
		sb.WriteString("\n")
	}
	sb.WriteString("//\n")
	return sb.String()
}

// WriteGBFile lays out several records; without FinalNewline the file ends in "//".
func WriteGBFile(recs []*GBRecord, lay GBLayout, header bool, r *rand.Rand) string {
	var sb strings.Builder
	if header {
		sb.WriteString(FlatHeader(r, len(recs)))
	}
	for _, rec := range recs {
		sb.WriteString(WriteGB(rec, lay))
	}
	out := sb.String()
	if !lay.FinalNewline {
		out = strings.TrimSuffix(out, "\n")
	}
	return out
}

// FlatHeader is a 10-line GenBank flat-file header.
func FlatHeader(r *rand.Rand, n int) string {
	lines := []string{
		"GBTEST" + fmt.Sprint(1+r.Intn(99)) + ".SEQ          Genetic Sequence Data Bank",
		"                         " + "October 15 2020",
		"",
		"                NCBI-GenBank Flat File Release " + fmt.Sprint(200+r.Intn(60)) + ".0",
		"",
		"                        " + []string{"Bacterial", "Synthetic", "Plant", "Viral"}[r.Intn(4)] + " Sequences (Part 1)",
		"",
		fmt.Sprintf("%8d loci, %11d bases, from %8d reported sequences", n, 1000+r.Intn(100000), n),
		"",
		"",
	}
	return strings.Join(lines, "\n") + "\n"
}

// ---- random records ---------------------------------------------------------------

var (
	gbDivisions = []string{"PRI", "ROD", "MAM", "VRT", "INV", "PLN", "BCT", "VRL", "PHG", "SYN", "UNA", "EST", "PAT", "STS", "GSS", "HTG", "HTC", "ENV"}
	gbMolTypes  = []string{"DNA", "mRNA", "tRNA", "rRNA"}
	gbMonths    = []string{"JAN", "FEB", "MAR", "APR", "MAY", "JUN", "JUL", "AUG", "SEP", "OCT", "NOV", "DEC"}
	gbFeatKeys  = []string{"gene", "CDS", "misc_feature", "source", "promoter", "terminator", "rep_origin", "mRNA", "tRNA", "regulatory", "5'UTR", "3'UTR", "primer_bind", "-10_signal", "sig_peptide", "exon", "intron", "protein_bind"}
	gbTextKeys  = []string{"gene", "product", "note", "label", "locus_tag", "db_xref", "function", "standard_name", "organism", "mol_type", "experiment", "inference", "allele", "old_locus_tag", "bound_moiety", "variety", "type_material", "sub_strain", "EC_number", "PCR_primers", "strain"}
	gbNumKeys   = []string{"codon_start", "transl_table", "number", "citation_no"}
	gbFlagKeys  = []string{"pseudo", "partial", "ribosomal_slippage", "trans_splicing", "environmental_sample"}
	gbExtraKeys = []string{"COMMENT", "DBLINK", "DBSOURCE", "PROJECT", "PRIMARY", "CONTIG", "SEGMENT"}
	hazardWords = []string{"JOURNAL", "TITLE", "AUTHORS", "ORIGIN", "FEATURES", "REFERENCE", "COMMENT", "PUBMED", "REMARK", "LOCUS", "SOURCE", "ORGANISM",
		"/usr/bin", "/note=x", "a=b", "a/b=c", "=", "/", "key=value=more", "http://x.org/y", "1..5", "//x", "DNA", "circular", "linear", "bp", "12-APR-2020", "SYN",
		"/translation=MKV", "/translation=\\", "/gene=x", "/product=", "/codon_start=1", "07-feb-2019", "LOCUS_1"}
)

const wordChars = "abcdefghijklmnopqrstuvwxyzABCDEFGHIJKLMNOPQRSTUVWXYZ0123456789.,;:()[]{}<>!?#$%&'*+-_@^`|~\\/="

// RandWord draws one word of printable ASCII without the double quote and without blanks.
func RandWord(r *rand.Rand, hazard float64) string {
	if r.Float64() < hazard {
		return hazardWords[r.Intn(len(hazardWords))]
	}
	if r.Intn(150) == 0 {
		// a blank-free token longer than any line (URL, accession list): cannot be wrapped
		return "http://example.org/" + RandWordAlnum(r, 50+r.Intn(90))
	}
	n := 1 + r.Intn(12)
	b := make([]byte, n)
	plain := r.Intn(3) != 0
	for i := range b {
		if plain {
			b[i] = wordChars[r.Intn(52)]
		} else {
			b[i] = wordChars[r.Intn(len(wordChars))]
		}
	}
	w := string(b)
	// no word may end in "//": a wrapped line ending with it would look like a record terminator
	for strings.HasSuffix(w, "//") {
		w = w[:len(w)-1] + "x"
	}
	return w
}

// RandText draws words separated by single blanks, total length up to maxLen.
func RandText(r *rand.Rand, maxLen int, hazard float64) string {
	target := 1 + r.Intn(maxLen)
	var ws []string
	n := 0
	for n < target {
		w := RandWord(r, hazard)
		ws = append(ws, w)
		n += len(w) + 1
	}
	return strings.Join(ws, " ")
}

// RandLocIn draws a location expression inside a sequence of length n.
func RandLocIn(r *rand.Rand, depth, n int) *oracle.Loc {
	k := r.Intn(10)
	if depth == 0 || k < 4 {
		a := 1 + r.Intn(n)
		if r.Intn(8) == 0 {
			return &oracle.Loc{Kind: oracle.LocSingle, Start: a, End: a}
		}
		b := a + r.Intn(n-a+1)
		return &oracle.Loc{Kind: oracle.LocSpan, Start: a, End: b, Partial5: r.Intn(8) == 0, Partial3: r.Intn(8) == 0}
	}
	if k < 6 {
		return &oracle.Loc{Kind: oracle.LocComplement, Subs: []*oracle.Loc{RandLocIn(r, depth-1, n)}}
	}
	ar := 2 + r.Intn(5)
	if r.Intn(6) == 0 {
		ar = 6 + r.Intn(20) // long joins force multi-line locations
	}
	l := &oracle.Loc{Kind: oracle.LocJoin}
	for i := 0; i < ar; i++ {
		d := 0
		if r.Intn(3) == 0 {
			d = depth - 1
		}
		l.Subs = append(l.Subs, RandLocIn(r, d, n))
	}
	return l
}

// LaterDivision returns a division code that the GenBank release notes list after div ("" if there is none).
func LaterDivision(r *rand.Rand, div string) string {
	for i, d := range gbDivisions {
		if d == div && i < len(gbDivisions)-1 {
			return gbDivisions[i+1+r.Intn(len(gbDivisions)-i-1)]
		}
	}
	return ""
}

// AnyDivision draws a division code.
func AnyDivision(r *rand.Rand) string { return gbDivisions[r.Intn(len(gbDivisions))] }

// FirstDivisionIn returns the code listed first in the GenBank release notes among div (if not empty) and the
// codes that occur, in upper case, in name; div if none occurs.
func FirstDivisionIn(name, div string) string {
	for _, d := range gbDivisions {
		if d == div || strings.Contains(name, d) {
			return d
		}
	}
	return div
}

// RandGBRecord draws an abstract record with a sequence of length seqLen.
func RandGBRecord(r *rand.Rand, seqLen int, maxFeatures int, maxText int) *GBRecord {
	rec := &GBRecord{}
	rec.Name = strings.ToLower(RandWordAlnum(r, 3+r.Intn(10)))
	if r.Intn(4) == 0 {
		rec.Name = strings.ToLower(RandWordAlnum(r, 10+r.Intn(14))) // longer than the 16-column field now and then
	}
	if r.Intn(12) == 0 {
		// construct names as plasmid editors export them: name and length together do not fit columns 13-40
		rec.Name = strings.ToLower(RandWordAlnum(r, 6+r.Intn(8))) + []string{"-", "_", "."}[r.Intn(3)] + strings.ToLower(RandWordAlnum(r, 12+r.Intn(20)))
	}
	if r.Intn(25) == 0 {
		// a locus named after the file or the gene: the name is, or holds as a word of its own, the (lower-case)
		// spelling of a molecule type
		word := []string{"dna", "mrna", "trna", "rrna", "rna"}[r.Intn(5)]
		rec.Name = []string{word, word + "-" + strings.ToLower(RandWordAlnum(r, 3)), strings.ToLower(RandWordAlnum(r, 4)) + "." + word, word + ".1"}[r.Intn(4)]
	}
	if r.Intn(25) == 0 {
		// constructs named after what was done to them: the name holds a topology word inside a longer word
		// (linearized_puc19, circular_permutant, nonlinear_x), whatever the topology stated later on the line
		word := []string{"linear", "circular"}[r.Intn(2)]
		tail := strings.ToLower(RandWordAlnum(r, 2+r.Intn(5)))
		rec.Name = []string{word + "ized_" + tail, word + "_" + tail, "non" + word + "_" + tail, tail + "_" + word + "ised", tail + word}[r.Intn(5)]
	}
	if r.Intn(30) == 0 {
		// preps and exports named after the day they were made: a date inside the (lower-case) name
		rec.Name = strings.ToLower(RandWordAlnum(r, 2+r.Intn(4))) + "_" + fmt.Sprintf("%02d-%s-%d", 1+r.Intn(28), []string{"jan", "feb", "mar", "apr", "may", "jun", "jul", "aug", "sep", "oct", "nov", "dec"}[r.Intn(12)], 1990+r.Intn(35)) + []string{"", "_b", ".2"}[r.Intn(3)]
	}
	rec.MolType = gbMolTypes[r.Intn(len(gbMolTypes))]
	rec.Topology = []string{"linear", "circular", ""}[r.Intn(3)]
	rec.Division = gbDivisions[r.Intn(len(gbDivisions))]
	rec.Date = fmt.Sprintf("%02d-%s-%04d", 1+r.Intn(28), gbMonths[r.Intn(12)], 1980+r.Intn(45))
	hz := []float64{0, 0.05, 0.3}[r.Intn(3)]
	// dbl doubles one blank of a text now and then (aligned columns in structured comments, typing habits)
	dbl := func(t string) string {
		if r.Intn(5) != 0 {
			return t
		}
		var at []int
		for i := 1; i+1 < len(t); i++ {
			if t[i] == ' ' && t[i-1] != ' ' && t[i+1] != ' ' {
				at = append(at, i)
			}
		}
		if len(at) == 0 {
			return t
		}
		i := at[r.Intn(len(at))]
		return t[:i] + " " + t[i:]
	}
	txt := func(max int) string {
		if max > maxText {
			max = maxText
		}
		return RandText(r, max, hz)
	}
	rec.Definition = dbl(txt(300))
	rec.Accession = RandWordAlnum(r, 6+r.Intn(4))
	rec.Version = rec.Accession + "." + fmt.Sprint(1+r.Intn(9))
	if r.Intn(3) == 0 {
		rec.Version += "  GI:" + fmt.Sprint(100000+r.Intn(90000000)) // the line as GenBank wrote it until 2017
	}
	rec.Keywords = []string{".", txt(80)}[r.Intn(2)]
	rec.Source = dbl(txt(60))
	rec.OrgName = txt(40)
	for i := r.Intn(4); i > 0; i-- {
		rec.Lineage = append(rec.Lineage, RandText(r, 50, 0)+";")
	}
	for i := r.Intn(6); i > 0; i-- {
		ref := GBRef{Range: fmt.Sprintf("(bases 1 to %d)", seqLen)}
		if r.Intn(5) != 0 {
			ref.Authors = txt(200)
		}
		if r.Intn(5) != 0 {
			ref.Title = dbl(txt(300))
		}
		if r.Intn(5) != 0 {
			ref.Journal = txt(150)
		}
		if r.Intn(2) == 0 {
			ref.PubMed = fmt.Sprint(1000000 + r.Intn(30000000))
		}
		if r.Intn(3) == 0 {
			ref.Remark = txt(120)
		}
		rec.Refs = append(rec.Refs, ref)
	}
	for _, k := range r.Perm(len(gbExtraKeys))[:r.Intn(4)] {
		rec.Extras = append(rec.Extras, GBExtra{gbExtraKeys[k], dbl(txt(2000))})
	}
	nf := 0
	if maxFeatures > 0 {
		nf = r.Intn(maxFeatures + 1)
	}
	for i := 0; i < nf; i++ {
		f := GBFeature{Key: gbFeatKeys[r.Intn(len(gbFeatKeys))], Loc: RandLocIn(r, 1+r.Intn(3), seqLen)}
		nq := r.Intn(9)
		if r.Intn(4) == 0 {
			nq = 0
		}
		used := map[string]bool{}
		for j := 0; j < nq; j++ {
			var q GBQual
			switch k := r.Intn(10); {
			case k < 6:
				q = GBQual{Key: gbTextKeys[r.Intn(len(gbTextKeys))], Value: txt(250), Kind: QualText}
				if r.Intn(6) == 0 { // e.g. "alpha  beta": two blanks between two words, anywhere in the value
					ws := strings.Split(q.Value, " ")
					for n := 1 + r.Intn(3); n > 0 && len(ws) > 1; n-- {
						i := 1 + r.Intn(len(ws)-1)
						ws[i] = " " + strings.TrimLeft(ws[i], " ")
					}
					q.Value = strings.Join(ws, " ")
				}
			case k < 8:
				q = GBQual{Key: gbNumKeys[r.Intn(len(gbNumKeys))], Value: fmt.Sprint(1 + r.Intn(30)), Kind: QualNumber}
			case k < 9:
				q = GBQual{Key: gbFlagKeys[r.Intn(len(gbFlagKeys))], Kind: QualFlag}
			default:
				q = GBQual{Key: "translation", Value: randLetters(r, "ACDEFGHIKLMNPQRSTVWY", 1+r.Intn(400)), Kind: QualTranslation}
			}
			if used[q.Key] {
				continue
			}
			used[q.Key] = true
			f.Quals = append(f.Quals, q)
		}
		rec.Features = append(rec.Features, f)
	}
	alpha := "acgt"
	if r.Intn(5) == 0 {
		alpha = "acgtnrykmsw"
	}
	rec.Seq = randLetters(r, alpha, seqLen)
	return rec
}

func randLetters(r *rand.Rand, alphabet string, n int) string {
	b := make([]byte, n)
	for i := range b {
		b[i] = alphabet[r.Intn(len(alphabet))]
	}
	return string(b)
}

// RandWordAlnum draws an alphanumeric word starting with a letter.
func RandWordAlnum(r *rand.Rand, n int) string {
	const letters = "abcdefghijklmnopqrstuvwxyzABCDEFGHIJKLMNOPQRSTUVWXYZ"
	const alnum = letters + "0123456789_"
	b := make([]byte, n)
	b[0] = letters[r.Intn(len(letters))]
	for i := 1; i < n; i++ {
		b[i] = alnum[r.Intn(len(alnum))]
	}
	return string(b)
}
