package gen

import (
	"fmt"
	"strings"

	"verif/internal/oracle"
)

// A column-based GenBank reader written from the release notes: keyword field = columns 1-12,
// data from column 13; sub-keywords indented by 2-3 blanks; continuation lines have a blank keyword
// field; feature key in columns 6-20, location and qualifiers from column 22; qualifier values are
// delimited by their double quotes; LOCUS is read by tokens; ORIGIN letters are collected.

// ReadGBFile splits a file into records at "//" lines and reads each.
func ReadGBFile(file string, header bool) ([]*GBRecord, error) {
	lines := strings.Split(file, "\n")
	if header {
		if len(lines) < 10 {
			return nil, fmt.Errorf("file shorter than its header")
		}
		lines = lines[10:]
	}
	var recs []*GBRecord
	var cur []string
	for _, l := range lines {
		if strings.TrimRight(l, " \r") == "//" {
			rec, err := ReadGB(cur)
			if err != nil {
				return recs, err
			}
			recs = append(recs, rec)
			cur = nil
			continue
		}
		cur = append(cur, l)
	}
	for _, l := range cur {
		if strings.TrimSpace(l) != "" {
			return recs, fmt.Errorf("text after the last record terminator: %q", l)
		}
	}
	return recs, nil
}

func blank(s string) bool { return strings.TrimSpace(s) == "" }

func field(l string, from, to int) string {
	if from >= len(l) {
		return ""
	}
	if to > len(l) {
		to = len(l)
	}
	return l[from:to]
}

// ReadGB reads one record (lines without the terminator).
func ReadGB(lines []string) (*GBRecord, error) {
	rec := &GBRecord{}
	type block struct {
		key  string
		sub  bool
		data []string
	}
	var blocks []*block
	i := 0
	// ---- header part up to FEATURES
	for ; i < len(lines); i++ {
		l := lines[i]
		if blank(l) {
			continue
		}
		if strings.HasPrefix(l, "FEATURES") || strings.HasPrefix(l, "ORIGIN") {
			break
		}
		kw := field(l, 0, 12)
		data := strings.TrimSpace(field(l, 12, len(l)))
		switch {
		case l[0] != ' ':
			// a top-level keyword may be longer than the field only in LOCUS (handled by tokens)
			blocks = append(blocks, &block{key: strings.Fields(kw)[0], data: []string{data}})
			if strings.Fields(kw)[0] == "LOCUS" {
				blocks[len(blocks)-1].data = []string{l}
			}
		case !blank(kw):
			blocks = append(blocks, &block{key: strings.TrimSpace(kw), sub: true, data: []string{data}})
		default:
			if len(blocks) == 0 {
				return nil, fmt.Errorf("continuation line before any keyword: %q", l)
			}
			b := blocks[len(blocks)-1]
			b.data = append(b.data, data)
		}
	}
	join := func(b *block) string {
		var parts []string
		for _, d := range b.data {
			if d != "" {
				parts = append(parts, d)
			}
		}
		return strings.Join(parts, " ")
	}
	var curRef *GBRef
	for _, b := range blocks {
		if b.sub {
			switch b.key {
			case "ORGANISM":
				rec.OrgName = b.data[0]
				rec.Lineage = append([]string(nil), b.data[1:]...)
			case "AUTHORS", "TITLE", "JOURNAL", "PUBMED", "REMARK":
				if curRef == nil {
					return nil, fmt.Errorf("%s outside a REFERENCE", b.key)
				}
				switch b.key {
				case "AUTHORS":
					curRef.Authors = join(b)
				case "TITLE":
					curRef.Title = join(b)
				case "JOURNAL":
					curRef.Journal = join(b)
				case "PUBMED":
					curRef.PubMed = join(b)
				case "REMARK":
					curRef.Remark = join(b)
				}
			}
			continue
		}
		if b.key != "REFERENCE" {
			curRef = nil
		}
		switch b.key {
		case "LOCUS":
			tok := strings.Fields(b.data[0])
			if len(tok) < 4 || tok[3] != "bp" {
				return nil, fmt.Errorf("LOCUS line not understood: %q", b.data[0])
			}
			rec.Name = tok[1]
			var n int
			if _, err := fmt.Sscan(tok[2], &n); err != nil {
				return nil, fmt.Errorf("LOCUS length %q", tok[2])
			}
			rec.Seq = strings.Repeat("?", 0)
			rec.lenStated = n
			for _, t := range tok[4:] {
				switch {
				case t == "linear" || t == "circular":
					rec.Topology = t
				case len(t) == 11 && t[2] == '-' && t[6] == '-':
					rec.Date = t
				case len(t) == 3 && strings.ToUpper(t) == t && rec.MolType != "" && rec.Division == "":
					rec.Division = t
				case rec.MolType == "":
					rec.MolType = t
				}
			}
		case "DEFINITION":
			rec.Definition = join(b)
		case "ACCESSION":
			rec.Accession = join(b)
		case "VERSION":
			rec.Version = join(b)
		case "KEYWORDS":
			rec.Keywords = join(b)
		case "SOURCE":
			rec.Source = join(b)
		case "REFERENCE":
			txt := join(b)
			parts := strings.SplitN(txt, " ", 2)
			ref := GBRef{}
			if len(parts) == 2 {
				ref.Range = strings.TrimSpace(parts[1])
			}
			rec.Refs = append(rec.Refs, ref)
			curRef = &rec.Refs[len(rec.Refs)-1]
			rec.refIndex = append(rec.refIndex, parts[0])
		default:
			rec.Extras = append(rec.Extras, GBExtra{b.key, join(b)})
		}
	}
	// ---- feature table
	if i < len(lines) && strings.HasPrefix(lines[i], "FEATURES") {
		i++
		var f *GBFeature
		var q *GBQual
		open := false // inside a quoted value
		for ; i < len(lines); i++ {
			l := lines[i]
			if strings.HasPrefix(l, "ORIGIN") {
				break
			}
			if blank(l) {
				continue
			}
			if len(l) > 5 && l[0] == ' ' && l[5] != ' ' && !open {
				rec.Features = append(rec.Features, GBFeature{Key: strings.TrimSpace(field(l, 5, 21)), LocText: strings.TrimSpace(field(l, 21, len(l)))})
				f = &rec.Features[len(rec.Features)-1]
				q = nil
				continue
			}
			if f == nil || !blank(field(l, 0, 21)) {
				return nil, fmt.Errorf("feature table line not understood: %q", l)
			}
			body := strings.TrimRight(field(l, 21, len(l)), " ")
			switch {
			case open:
				if q.Kind == QualTranslation {
					q.Value += body
				} else {
					q.Value += " " + body
				}
				if strings.HasSuffix(body, "\"") {
					q.Value = strings.TrimSuffix(q.Value, "\"")
					open = false
				}
			case strings.HasPrefix(body, "/"):
				kv := strings.SplitN(body[1:], "=", 2)
				f.Quals = append(f.Quals, GBQual{Key: kv[0]})
				q = &f.Quals[len(f.Quals)-1]
				switch {
				case len(kv) == 1:
					q.Kind = QualFlag
				case strings.HasPrefix(kv[1], "\""):
					q.Kind = QualText
					if kv[0] == "translation" {
						q.Kind = QualTranslation
					}
					v := kv[1][1:]
					if strings.HasSuffix(v, "\"") && len(kv[1]) >= 2 {
						q.Value = strings.TrimSuffix(v, "\"")
					} else {
						q.Value = v
						open = true
					}
				default:
					q.Kind = QualNumber
					q.Value = kv[1]
				}
			case q == nil:
				f.LocText += strings.TrimSpace(body)
			default:
				return nil, fmt.Errorf("unquoted continuation of a qualifier: %q", l)
			}
		}
		if open {
			return nil, fmt.Errorf("unterminated quoted qualifier value")
		}
		for k := range rec.Features {
			if lc, err := oracle.ParseLocStrict(rec.Features[k].LocText); err == nil {
				rec.Features[k].Loc = lc
			}
		}
	}
	// ---- sequence
	if i < len(lines) && strings.HasPrefix(lines[i], "ORIGIN") {
		var sb strings.Builder
		for i++; i < len(lines); i++ {
			for _, c := range []byte(lines[i]) {
				if (c >= 'a' && c <= 'z') || (c >= 'A' && c <= 'Z') {
					sb.WriteByte(c)
				}
			}
		}
		rec.Seq = sb.String()
	}
	return rec, nil
}

// LocString is the location text of a feature (from the expression if there is one).
func (f *GBFeature) LocString() string {
	if f.Loc != nil && f.LocText == "" {
		return f.Loc.String()
	}
	return f.LocText
}

// DiffGB compares two abstract records field by field; "" means equal.
func DiffGB(a, b *GBRecord) string {
	cmp := func(name, x, y string) string {
		if x != y {
			return fmt.Sprintf("%s: %q vs %q", name, clipS(x, 100), clipS(y, 100))
		}
		return ""
	}
	checks := []string{
		cmp("sequence", a.Seq, b.Seq), cmp("locus name", a.Name, b.Name), cmp("molecule type", a.MolType, b.MolType),
		cmp("topology", a.Topology, b.Topology), cmp("division", a.Division, b.Division), cmp("date", a.Date, b.Date),
		cmp("definition", a.Definition, b.Definition), cmp("accession", a.Accession, b.Accession), cmp("version", a.Version, b.Version),
		cmp("keywords", a.Keywords, b.Keywords), cmp("source", a.Source, b.Source), cmp("organism", a.Organism(), b.Organism()),
	}
	for _, c := range checks {
		if c != "" {
			return c
		}
	}
	if b.lenStated != 0 && b.lenStated != len(a.Seq) {
		return fmt.Sprintf("LOCUS length %d vs sequence length %d", b.lenStated, len(a.Seq))
	}
	if len(a.Refs) != len(b.Refs) {
		return fmt.Sprintf("reference count %d vs %d", len(a.Refs), len(b.Refs))
	}
	for i := range a.Refs {
		if a.Refs[i] != b.Refs[i] {
			return fmt.Sprintf("reference %d: %+v vs %+v", i+1, a.Refs[i], b.Refs[i])
		}
		if i < len(b.refIndex) && b.refIndex[i] != fmt.Sprint(i+1) {
			return fmt.Sprintf("reference %d has index %q", i+1, b.refIndex[i])
		}
	}
	am, bm := map[string]string{}, map[string]string{}
	for _, e := range a.Extras {
		am[e.Key] = e.Text
	}
	for _, e := range b.Extras {
		bm[e.Key] = e.Text
	}
	if len(am) != len(bm) {
		return fmt.Sprintf("extra keyword blocks %d vs %d", len(am), len(bm))
	}
	for k, v := range am {
		if bm[k] != v {
			return fmt.Sprintf("keyword block %s: %q vs %q", k, clipS(v, 100), clipS(bm[k], 100))
		}
	}
	if len(a.Features) != len(b.Features) {
		return fmt.Sprintf("feature count %d vs %d", len(a.Features), len(b.Features))
	}
	for i := range a.Features {
		fa, fb := &a.Features[i], &b.Features[i]
		if fa.Key != fb.Key {
			return fmt.Sprintf("feature %d key %q vs %q", i, fa.Key, fb.Key)
		}
		if fa.LocString() != fb.LocString() {
			return fmt.Sprintf("feature %d location %q vs %q", i, clipS(fa.LocString(), 100), clipS(fb.LocString(), 100))
		}
		qa, qb := map[string]string{}, map[string]string{}
		for _, q := range fa.Quals {
			qa[q.Key] = q.Value
		}
		for _, q := range fb.Quals {
			qb[q.Key] = q.Value
		}
		if len(qa) != len(qb) {
			return fmt.Sprintf("feature %d qualifier count %d vs %d", i, len(qa), len(qb))
		}
		for k, v := range qa {
			if w, ok := qb[k]; !ok || w != v {
				return fmt.Sprintf("feature %d qualifier /%s: %q vs %q", i, k, clipS(v, 100), clipS(w, 100))
			}
		}
	}
	return ""
}

func clipS(s string, n int) string {
	if len(s) <= n {
		return s
	}
	return s[:n] + "..."
}
