// Package mon is the monitoring framework: child-side recording (journal,
// counters, violations, samples) and parent-side supervision, merging,
// race-log parsing, known-finding handling and evidence writing.
package mon

import (
	"encoding/binary"
	"encoding/json"
	"fmt"
	"hash/fnv"
	"math/rand"
	"os"
	"path/filepath"
	"runtime"
	"runtime/debug"
	"sort"
	"strings"
	"sync"
	"syscall"
	"time"
)

// Violation is one refuting observation.
type Violation struct {
	Case   string         `json:"case"`
	Msg    string         `json:"msg"`
	Replay map[string]any `json:"replay,omitempty"`
}

// Known is an observation attributed to a listed known finding by its signature.
type Known struct {
	Key  string `json:"key"`
	Case string `json:"case"`
	Msg  string `json:"msg"`
}

// Summary is what a child writes when it finishes normally.
type Summary struct {
	Shard        int                 `json:"shard"`
	Evaluations  int64               `json:"evaluations"`
	Nontrivial   int64               `json:"nontrivial"`
	Violations   []Violation         `json:"violations"`
	NViolations  int64               `json:"n_violations"`
	Known        []Known             `json:"known"`
	KnownCount   map[string]int64    `json:"known_count"`
	Stats        map[string]int64    `json:"stats"`
	Maxes        map[string]int64    `json:"maxes"`
	Sets         map[string][]string `json:"sets"`
	Samples      []any               `json:"samples"`
	Extra        map[string]any      `json:"extra"`
	Inconclusive []string            `json:"inconclusive"`
	SelfCheck    []string            `json:"selfcheck_failures"`
	HookOn       bool                `json:"hook_on"`
}

// W is the child-side handle given to a property's Run function.
type W struct {
	PropID  string
	Seed    int64
	Tier    string
	Shard   int
	NShards int
	Only    string // replay: run only this case id
	Dir     string
	HookOn  bool

	mu       sync.Mutex
	sum      Summary
	hashes   map[uint64]struct{}
	journal  *os.File
	nSamples int
	maxSamp  int
	caseNo   int
	seq      uint32 // journal entry number (0 = idle)
	seq2     uint32 // number of entries ended
	curCase  string // case id of the entry in flight
	curInput string
	cpuBegin int64 // process CPU time (ns) when the entry in flight began
}

const maxRecordedViolations = 40

// NewW opens the journal and prepares the summary.
func NewW(prop string, seed int64, tier string, shard, nshards int, only, dir string, hookOn bool) (*W, error) {
	w := &W{PropID: prop, Seed: seed, Tier: tier, Shard: shard, NShards: nshards, Only: only, Dir: dir, HookOn: hookOn}
	w.sum.Shard = shard
	w.sum.Stats = map[string]int64{}
	w.sum.Maxes = map[string]int64{}
	w.sum.KnownCount = map[string]int64{}
	w.sum.Sets = map[string][]string{}
	w.sum.Extra = map[string]any{}
	w.sum.HookOn = hookOn
	w.hashes = map[uint64]struct{}{}
	w.maxSamp = 6
	f, err := os.OpenFile(filepath.Join(dir, fmt.Sprintf("journal-%d", shard)), os.O_CREATE|os.O_RDWR|os.O_TRUNC, 0644)
	if err != nil {
		return nil, err
	}
	w.journal = f
	return w, nil
}

// Quick reports whether this is the quick tier.
func (w *W) Quick() bool { return w.Tier != "thorough" }

// Pick returns q in the quick tier and t in the thorough tier.
func (w *W) Pick(q, t int) int {
	if w.Quick() {
		return q
	}
	return t
}

// Want says whether this shard should run case number idx with id caseID.
func (w *W) Want(caseID string, idx int) bool {
	if w.Only != "" {
		return w.Only == caseID
	}
	return idx%w.NShards == w.Shard
}

// Replaying reports whether a single case is being replayed.
func (w *W) Replaying() bool { return w.Only != "" }

// Rand returns the PRNG of a case: a function of VERIF_SEED, property and case id only.
func (w *W) Rand(caseID string) *rand.Rand {
	h := fnv.New64a()
	fmt.Fprintf(h, "%s|%d|%s", w.PropID, w.Seed, caseID)
	return rand.New(rand.NewSource(int64(h.Sum64())))
}

// Hash64 is the hash used for distinct-input counting.
func Hash64(parts ...string) uint64 {
	h := fnv.New64a()
	for _, p := range parts {
		h.Write([]byte(p))
		h.Write([]byte{0})
	}
	return h.Sum64()
}

// Begin journals the case id and its serialized input before poly is called.
// The journal holds only the case in flight; if the process dies, it is the witness.
func (w *W) Begin(caseID, input string) {
	w.mu.Lock()
	defer w.mu.Unlock()
	if len(input) > 1<<20 {
		input = input[:1<<20]
	}
	w.seq++
	if w.seq == 0 {
		w.seq = 1
	}
	w.cpuBegin = processCPU()
	w.curCase, w.curInput = caseID, input
	buf := make([]byte, 0, 16+len(caseID)+len(input))
	buf = binary.LittleEndian.AppendUint32(buf, w.seq) // in flight: the entry's number
	buf = binary.LittleEndian.AppendUint32(buf, uint32(len(caseID)))
	buf = binary.LittleEndian.AppendUint32(buf, uint32(len(input)))
	buf = append(buf, caseID...)
	buf = append(buf, input...)
	w.journal.WriteAt(buf, 0)
}

// End marks the journal idle (no call into poly in flight).
func (w *W) End() {
	w.mu.Lock()
	defer w.mu.Unlock()
	var b [4]byte
	w.journal.WriteAt(b[:], 0)
	w.seq2++
	if w.cpuBegin > 0 {
		if ms := (processCPU() - w.cpuBegin) / 1e6; ms > w.sum.Maxes["max_cpu_milliseconds_of_one_journalled_entry"] {
			w.sum.Maxes["max_cpu_milliseconds_of_one_journalled_entry"] = ms
		}
		w.cpuBegin = 0
	}
}

var parkedStates = []string{"[chan send", "[chan receive", "[semacquire", "[select", "[sync.Mutex.Lock", "[sync.RWMutex", "[sync.WaitGroup.Wait", "[sync.Cond.Wait"}

// polyGoroutinesParked reports whether every goroutine that runs (or was created by) code of the poly module is
// parked on a channel, lock or wait group, and how many there are.
func polyGoroutinesParked(dump string) (all bool, n int, states string) {
	var st []string
	for _, g := range strings.Split(dump, "\n\n") {
		if !strings.Contains(g, "github.com/TimothyStiles/poly/") {
			continue
		}
		n++
		head := g
		if i := strings.IndexByte(g, '\n'); i > 0 {
			head = g[:i]
		}
		blocked := false
		for _, b := range parkedStates {
			if strings.Contains(head, b) {
				blocked = true
			}
		}
		if !blocked {
			return false, n, ""
		}
		if len(st) < 6 {
			st = append(st, head)
		}
	}
	return n > 0, n, strings.Join(st, "; ")
}

// StartStallDetector watches for a call into poly that is parked for good. It is meant for monitors whose
// harness never makes poly wait for a harness goroutine (no consumers, no readers that block): there, when the
// same journal entry is in flight, the process has consumed no CPU for a while, and three goroutine dumps in a
// row show every goroutine of poly parked on a channel, lock or wait group, nothing in the process can wake
// them again. (The Go runtime reports this itself - "all goroutines are asleep" - but not under the race
// detector, and not while any timer is pending.) The verdict rests on goroutine states, not on elapsed time.
func (w *W) StartStallDetector() {
	go func() {
		var lastSeq, lastEnded uint32
		var lastCPU int64
		quiet, parked := 0, 0
		for {
			time.Sleep(250 * time.Millisecond)
			w.mu.Lock()
			seq, ended, id, in := w.seq, w.seq2, w.curCase, w.curInput
			inFlight := w.cpuBegin > 0
			w.mu.Unlock()
			cpu := processCPU()
			if !inFlight || seq != lastSeq || ended != lastEnded || cpu-lastCPU > 20e6 {
				lastSeq, lastEnded, lastCPU, quiet, parked = seq, ended, cpu, 0, 0
				continue
			}
			lastCPU = cpu
			quiet++
			if quiet < 8 {
				continue
			}
			buf := make([]byte, 1<<20)
			n := runtime.Stack(buf, true)
			for n == len(buf) && len(buf) < 1<<27 {
				buf = make([]byte, 2*len(buf))
				n = runtime.Stack(buf, true)
			}
			if all, k, states := polyGoroutinesParked(string(buf[:n])); all {
				parked++
				if parked >= 3 {
					w.Violation(id, fmt.Sprintf("this call into poly never returns: %d goroutine(s) run poly code and every one of them is parked (%s) in three goroutine dumps in a row, the process consumed no CPU in between, and the harness has nothing running that could wake them", k, states), map[string]any{"journal_input": in})
					w.mu.Lock()
					w.cpuBegin = 0
					w.mu.Unlock()
					w.FinishAndExit()
				}
			} else {
				parked = 0
			}
		}
	}()
}

// processCPU is the CPU time (user+system, all threads) this process has consumed, in nanoseconds.
func processCPU() int64 {
	var ru syscall.Rusage
	if syscall.Getrusage(syscall.RUSAGE_SELF, &ru) != nil {
		return 0
	}
	return ru.Utime.Nano() + ru.Stime.Nano()
}

// ReadJournal returns the case in flight recorded in a journal file, if any.
func ReadJournal(path string) (caseID, input string, inFlight bool) {
	b, err := os.ReadFile(path)
	if err != nil || len(b) < 12 {
		return "", "", false
	}
	if binary.LittleEndian.Uint32(b[0:4]) == 0 {
		return "", "", false
	}
	nc := int(binary.LittleEndian.Uint32(b[4:8]))
	ni := int(binary.LittleEndian.Uint32(b[8:12]))
	if 12+nc+ni > len(b) {
		return "", "", false
	}
	return string(b[12 : 12+nc]), string(b[12+nc : 12+nc+ni]), true
}

// JournalSeq returns the number of the journal entry in flight (0 = idle or unreadable).
func JournalSeq(path string) uint32 {
	f, err := os.Open(path)
	if err != nil {
		return 0
	}
	defer f.Close()
	var b [4]byte
	if _, err := f.ReadAt(b[:], 0); err != nil {
		return 0
	}
	return binary.LittleEndian.Uint32(b[:])
}

// Eval counts one judged execution. hash identifies the input for distinct counting;
// it is only recorded when the input is non-trivial by the property's rule.
func (w *W) Eval(nontrivial bool, hash uint64) {
	w.mu.Lock()
	w.sum.Evaluations++
	if nontrivial {
		w.sum.Nontrivial++
		w.hashes[hash] = struct{}{}
	}
	w.mu.Unlock()
}

// EvalN counts n judged executions that share one (non-trivial) input identity.
func (w *W) EvalN(n int64, nontrivial bool, hash uint64) {
	w.mu.Lock()
	w.sum.Evaluations += n
	if nontrivial {
		w.sum.Nontrivial++
		w.hashes[hash] = struct{}{}
	}
	w.mu.Unlock()
}

// Violation records a refuting observation.
func (w *W) Violation(caseID, msg string, replay map[string]any) {
	w.mu.Lock()
	defer w.mu.Unlock()
	w.sum.NViolations++
	if len(w.sum.Violations) < maxRecordedViolations {
		if len(msg) > 4000 {
			msg = msg[:4000] + "...(truncated)"
		}
		w.sum.Violations = append(w.sum.Violations, Violation{Case: caseID, Msg: msg, Replay: replay})
	}
}

// Known records an observation that matches the signature of a known finding.
func (w *W) Known(key, caseID, msg string) {
	w.mu.Lock()
	defer w.mu.Unlock()
	w.sum.KnownCount[key]++
	if w.sum.KnownCount[key] <= 3 {
		w.sum.Known = append(w.sum.Known, Known{Key: key, Case: caseID, Msg: msg})
	}
}

// Sample keeps a few of the actual cases for the evidence file.
func (w *W) Sample(v any) {
	w.mu.Lock()
	defer w.mu.Unlock()
	w.nSamples++
	if len(w.sum.Samples) < w.maxSamp {
		w.sum.Samples = append(w.sum.Samples, v)
	}
}

// WantSample says whether another sample would be kept (to avoid building it).
func (w *W) WantSample() bool {
	w.mu.Lock()
	defer w.mu.Unlock()
	return len(w.sum.Samples) < w.maxSamp
}

// Add adds to a named counter of observed events.
func (w *W) Add(stat string, n int64) {
	w.mu.Lock()
	w.sum.Stats[stat] += n
	w.mu.Unlock()
}

// Max keeps the maximum of a named observed quantity.
func (w *W) Max(stat string, n int64) {
	w.mu.Lock()
	if cur, ok := w.sum.Maxes[stat]; !ok || n > cur {
		w.sum.Maxes[stat] = n
	}
	w.mu.Unlock()
}

// SetAdd adds a member to a named set of observed things (distinct orders, states, ...).
func (w *W) SetAdd(set, member string) {
	w.mu.Lock()
	defer w.mu.Unlock()
	for _, m := range w.sum.Sets[set] {
		if m == member {
			return
		}
	}
	if len(w.sum.Sets[set]) < 5000 {
		w.sum.Sets[set] = append(w.sum.Sets[set], member)
	}
}

// Extra stores a free-form evidence value (last writer wins per key).
func (w *W) Extra(key string, v any) {
	w.mu.Lock()
	w.sum.Extra[key] = v
	w.mu.Unlock()
}

// Inconclusive records a reason for which this run cannot decide.
func (w *W) Inconclusive(reason string) {
	w.mu.Lock()
	w.sum.Inconclusive = append(w.sum.Inconclusive, reason)
	w.mu.Unlock()
}

// SelfCheckFail records a disagreement inside the harness (oracle vs oracle, writer vs reader).
func (w *W) SelfCheckFail(msg string) {
	w.mu.Lock()
	if len(w.sum.SelfCheck) < 20 {
		w.sum.SelfCheck = append(w.sum.SelfCheck, msg)
	}
	w.mu.Unlock()
}

// Try runs fn and returns a description of the panic it raised, or "".
func Try(fn func()) (panicked string) {
	defer func() {
		if r := recover(); r != nil {
			panicked = fmt.Sprintf("panic: %v", r)
			if len(panicked) > 300 {
				panicked = panicked[:300]
			}
			_ = debug.Stack
		}
	}()
	fn()
	return ""
}

// Finish writes the summary and the hash file.
func (w *W) Finish() error {
	w.mu.Lock()
	defer w.mu.Unlock()
	for k := range w.sum.Sets {
		sort.Strings(w.sum.Sets[k])
	}
	hb := make([]byte, 0, 8*len(w.hashes))
	for h := range w.hashes {
		hb = binary.LittleEndian.AppendUint64(hb, h)
	}
	if err := os.WriteFile(filepath.Join(w.Dir, fmt.Sprintf("hashes-%d", w.Shard)), hb, 0644); err != nil {
		return err
	}
	b, err := json.Marshal(w.sum)
	if err != nil {
		return err
	}
	tmp := filepath.Join(w.Dir, fmt.Sprintf("summary-%d.tmp", w.Shard))
	if err := os.WriteFile(tmp, b, 0644); err != nil {
		return err
	}
	return os.Rename(tmp, filepath.Join(w.Dir, fmt.Sprintf("summary-%d.json", w.Shard)))
}

// FinishAndExit writes the summary and ends the child at once. It is for monitors that have recorded a
// violation which leaves goroutines of the monitored code running away (they cannot be stopped from outside).
func (w *W) FinishAndExit() {
	w.End()
	if err := w.Finish(); err != nil {
		fmt.Println(err)
		os.Exit(2)
	}
	os.Exit(0)
}
