package mon

import (
	"bufio"
	"encoding/binary"
	"encoding/json"
	"fmt"
	"os"
	"os/exec"
	"path/filepath"
	"regexp"
	"runtime"
	"sort"
	"strconv"
	"strings"
	"sync"
	"syscall"
	"time"
)

// Prop describes one property check.
type Prop struct {
	ID          string
	Race        bool
	Level       string
	Rule        string
	Assumptions []string
	// Shards returns the number of child processes for a tier.
	Shards func(tier string) int
	// Run is executed in each child.
	Run func(w *W)
	// MinStats: named observed-event counters that must reach a floor, else the run is inconclusive.
	MinStats func(tier string) map[string]int64
	// WatchdogSec is the generous wall-clock limit per child (inconclusive when it fires).
	WatchdogSec func(tier string) int
	// CallCPUSec bounds the CPU time (user+system of the child, all threads) one journalled entry may
	// consume: a call into poly that is still in flight after that much work never returns as far as this
	// monitor can wait (bounded-progress restatement of "returns"). 0 = 120 (quick) / 600 (thorough).
	// CPU seconds, not wall-clock seconds: the bound does not move with the load on the machine.
	CallCPUSec func(tier string) int
	// StallDetector starts the child-side detector of calls parked for good (see W.StartStallDetector).
	StallDetector bool
	// ChildProcs limits how many children run at once (0 = NumCPU).
	ChildProcs int
	// MemCapMiB: the parent polls the resident memory of every child (/proc/<pid>/statm) and kills a child
	// that passes this cap (0 = no cap). It is the out-of-process guard for monitored calls that run away so
	// fast that no goroutine of the child, including its own supervisor, is scheduled any more.
	MemCapMiB int
}

var registry = map[string]*Prop{}

// Register adds a property check to the registry.
func Register(p *Prop) { registry[p.ID] = p }

// Lookup finds a registered property check.
func Lookup(id string) *Prop { return registry[id] }

// IDs lists the registered property ids.
func IDs() []string {
	var ids []string
	for id := range registry {
		ids = append(ids, id)
	}
	sort.Strings(ids)
	return ids
}

// finding is a line of KNOWN_FINDINGS.txt.
type finding struct {
	Kind, Prop, Key, Text string
}

func loadFindings(path string) []finding {
	f, err := os.Open(path)
	if err != nil {
		return nil
	}
	defer f.Close()
	var out []finding
	sc := bufio.NewScanner(f)
	sc.Buffer(make([]byte, 1<<20), 1<<20)
	re := regexp.MustCompile(`^(finding|fixed):\s+property=(C\d+)\s+(?:key=(\S+)\s+)?(.*)$`)
	for sc.Scan() {
		m := re.FindStringSubmatch(strings.TrimSpace(sc.Text()))
		if m != nil {
			out = append(out, finding{m[1], m[2], m[3], m[4]})
		}
	}
	return out
}

type childResult struct {
	shard      int
	sum        *Summary
	watchdog   bool
	cpuBudget  bool  // an entry in flight consumed more than its CPU budget
	cpuSpentMs int64 // CPU milliseconds observed on that entry (lower bound)
	exitErr    string
	logTail    string
	jCase      string
	jInput     string
	jFlight    bool
	raceLogs   []string
	memCap     bool
	peakRSS    int64
}

// RaceReport is one de-duplicated data race report.
type RaceReport struct {
	Key   string `json:"key"`
	Count int    `json:"count"`
	Poly  bool   `json:"involves_poly"`
	Text  string `json:"text"`
}

var frameRe = regexp.MustCompile(`^  (\S+)\(`)

// parseRaceLog extracts WARNING: DATA RACE blocks and de-duplicates them by the
// pair of (innermost, outermost) poly frames of the two stacks, line numbers ignored.
func parseRaceLog(text string, into map[string]*RaceReport) int {
	n := 0
	blocks := strings.Split(text, "WARNING: DATA RACE")
	for _, b := range blocks[1:] {
		n++
		if i := strings.Index(b, "=================="); i >= 0 {
			b = b[:i]
		}
		// split into stacks at blank lines
		var stacks [][]string
		var cur []string
		for _, ln := range strings.Split(b, "\n") {
			if strings.TrimSpace(ln) == "" {
				if len(cur) > 0 {
					stacks = append(stacks, cur)
					cur = nil
				}
				continue
			}
			if m := frameRe.FindStringSubmatch(ln); m != nil {
				cur = append(cur, m[1])
			}
		}
		if len(cur) > 0 {
			stacks = append(stacks, cur)
		}
		var keys []string
		poly := false
		for si, st := range stacks {
			if si >= 2 { // only the two access stacks, not goroutine creation stacks
				break
			}
			inner, outer := "", ""
			for _, fr := range st {
				if strings.Contains(fr, "github.com/TimothyStiles/poly") {
					if inner == "" {
						inner = fr
					}
					outer = fr
				}
			}
			if inner != "" {
				poly = true
			} else if len(st) > 0 {
				inner, outer = st[0], st[len(st)-1]
			}
			keys = append(keys, inner+"<"+outer)
		}
		sort.Strings(keys)
		k := strings.Join(keys, " || ")
		if r, ok := into[k]; ok {
			r.Count++
		} else {
			t := "WARNING: DATA RACE" + b
			if len(t) > 3000 {
				t = t[:3000]
			}
			into[k] = &RaceReport{Key: k, Count: 1, Poly: poly, Text: t}
		}
	}
	return n
}

// limitWriter keeps the first bytes of a child's output and discards the rest.
type limitWriter struct {
	mu   sync.Mutex
	f    *os.File
	left int
}

func (l *limitWriter) Write(b []byte) (int, error) {
	l.mu.Lock()
	defer l.mu.Unlock()
	n := len(b)
	if l.left > 0 {
		if len(b) > l.left {
			b = b[:l.left]
		}
		l.f.Write(b)
		l.left -= len(b)
	}
	return n, nil
}

// statementCoverage summarises the coverage counters the children wrote (thorough tier: the binary is built with
// -cover -coverpkg=<poly packages>): per poly source file that was reached, statements and statements executed.
func statementCoverage(dir string) map[string]any {
	prof := filepath.Join(dir, "profile.txt")
	if out, err := exec.Command("go", "tool", "covdata", "textfmt", "-i="+dir, "-o="+prof).CombinedOutput(); err != nil {
		return map[string]any{"error": strings.TrimSpace(string(out))}
	}
	f, err := os.Open(prof)
	if err != nil {
		return nil
	}
	defer f.Close()
	type fc struct{ stmts, covered int }
	files := map[string]*fc{}
	sc := bufio.NewScanner(f)
	sc.Buffer(make([]byte, 1<<20), 1<<20)
	for sc.Scan() {
		ln := sc.Text()
		if !strings.HasPrefix(ln, "github.com/TimothyStiles/poly/") {
			continue
		}
		i := strings.Index(ln, ".go:")
		if i < 0 {
			continue
		}
		name := strings.TrimPrefix(ln[:i+3], "github.com/TimothyStiles/poly/")
		var n, c int
		fields := strings.Fields(ln[i+4:])
		if len(fields) != 3 {
			continue
		}
		fmt.Sscan(fields[1], &n)
		fmt.Sscan(fields[2], &c)
		e := files[name]
		if e == nil {
			e = &fc{}
			files[name] = e
		}
		e.stmts += n
		if c > 0 {
			e.covered += n
		}
	}
	out := map[string]any{}
	for name, e := range files {
		if e.covered == 0 {
			continue
		}
		out[name] = map[string]any{"statements": e.stmts, "executed": e.covered, "percent": float64(e.covered*1000/e.stmts) / 10}
	}
	return out
}

func clipStr(s string, n int) string {
	if len(s) > n {
		return s[:n] + "..."
	}
	return s
}

func tail(path string, n int) string {
	b, err := os.ReadFile(path)
	if err != nil {
		return ""
	}
	if len(b) > n {
		b = b[len(b)-n:]
	}
	return string(b)
}

func head(path string, n int) string {
	b, err := os.ReadFile(path)
	if err != nil {
		return ""
	}
	if len(b) > n {
		b = b[:n]
	}
	return string(b)
}

// Options of a parent run.
type Options struct {
	Exe      string // path of this binary
	VerifDir string // /verif
	Tier     string
	Seed     int64
	Only     string // replay one case
	HookOn   bool
	Keep     bool
}

// Check runs a property check as parent and returns the process exit code.
func Check(p *Prop, o Options) int {
	t0 := time.Now()
	work := filepath.Join(o.VerifDir, ".work", fmt.Sprintf("%s-%s-%d", p.ID, o.Tier, os.Getpid()))
	os.RemoveAll(work)
	if err := os.MkdirAll(work, 0755); err != nil {
		fmt.Printf("INCONCLUSIVE property=%s reason=cannot create work dir: %v\n", p.ID, err)
		return 2
	}
	defer func() {
		if !o.Keep {
			os.RemoveAll(work)
		}
	}()
	nshards := 1
	if p.Shards != nil {
		nshards = p.Shards(o.Tier)
	}
	if o.Only != "" {
		nshards = 1
	}
	wd := 600
	if p.WatchdogSec != nil {
		wd = p.WatchdogSec(o.Tier)
	}
	maxProcs := runtime.NumCPU()
	if p.ChildProcs > 0 && p.ChildProcs < maxProcs {
		maxProcs = p.ChildProcs
	}
	results := make([]childResult, nshards)
	sem := make(chan struct{}, maxProcs)
	var wg sync.WaitGroup
	for i := 0; i < nshards; i++ {
		wg.Add(1)
		go func(i int) {
			defer wg.Done()
			sem <- struct{}{}
			defer func() { <-sem }()
			results[i] = runChild(p, o, work, i, nshards, wd)
		}(i)
	}
	wg.Wait()

	// ---- merge
	var (
		evals, nontrivSum, nviol int64
		viols                    []Violation
		knowns                   []Known
		knownCount               = map[string]int64{}
		stats                    = map[string]int64{}
		maxes                    = map[string]int64{}
		sets                     = map[string]map[string]struct{}{}
		samples                  []any
		extra                    = map[string]any{}
		inconcl                  []string
		selfc                    []string
		hashes                   = map[uint64]struct{}{}
		races                    = map[string]*RaceReport{}
		raceBlocks               int
		died                     int
	)
	var peakRSS int64
	for i := range results {
		r := &results[i]
		if r.peakRSS > peakRSS {
			peakRSS = r.peakRSS
		}
		for _, rl := range r.raceLogs {
			raceBlocks += parseRaceLog(rl, races)
		}
		if r.sum == nil {
			if r.watchdog {
				inconcl = append(inconcl, fmt.Sprintf("shard %d: wall-clock watchdog (%ds) fired; in-flight case %q", i, wd, r.jCase))
				continue
			}
			died++
			if r.cpuBudget && r.jFlight {
				nviol++
				viols = append(viols, Violation{Case: r.jCase,
					Msg: fmt.Sprintf("this call into poly did not return within its CPU budget: more than %.0f CPU-seconds consumed while it was in flight (budget %d; CPU time of the monitored process, not wall-clock time); journalled call: %s; log tail:\n%s",
						float64(r.cpuSpentMs)/1000, callCPUSec(p, o.Tier), clipStr(r.jInput, 600), r.logTail),
					Replay: map[string]any{"journal_input": r.jInput}})
			} else if r.jFlight && r.memCap {
				nviol++
				viols = append(viols, Violation{Case: r.jCase,
					Msg:    fmt.Sprintf("the monitored process passed the resident-memory cap of %d MiB during this call into poly (resident %d MiB when it was stopped); journalled call: %s", p.MemCapMiB, r.peakRSS>>20, clipStr(r.jInput, 600)),
					Replay: map[string]any{"journal_input": r.jInput}})
			} else if r.jFlight && strings.Contains(r.logTail, "panic:") && !strings.Contains(r.logTail, "github.com/TimothyStiles/poly/") {
				// an unrecovered panic with no poly frame on the stack is the harness's own fault (calls into poly are
				// made under recover): not an observation about poly
				inconcl = append(inconcl, fmt.Sprintf("shard %d: the harness itself panicked while case %q was journalled (%s): %s", i, r.jCase, r.exitErr, r.logTail))
			} else if r.jFlight {
				nviol++
				viols = append(viols, Violation{Case: r.jCase,
					Msg:    "the monitored process died during this call into poly (" + r.exitErr + "); log tail:\n" + r.logTail,
					Replay: map[string]any{"journal_input": r.jInput}})
			} else if strings.Contains(r.logTail, "github.com/TimothyStiles/poly/") && !r.memCap {
				// the harness makes only in-scope calls; a fatal error (deadlock, unrecovered panic in a goroutine
				// poly started, runtime throw) with poly frames on the stack is poly's doing even when the call was a
				// helper call the harness did not journal
				nviol++
				viols = append(viols, Violation{Case: fmt.Sprintf("shard-%d-helper-call", i),
					Msg:    "the monitored process died inside poly code during a call the harness does not journal (" + r.exitErr + "); log tail:\n" + r.logTail,
					Replay: map[string]any{"log_tail": r.logTail}})
			} else {
				inconcl = append(inconcl, fmt.Sprintf("shard %d died outside a monitored call (%s): %s", i, r.exitErr, r.logTail))
			}
			continue
		}
		s := r.sum
		evals += s.Evaluations
		nontrivSum += s.Nontrivial
		nviol += s.NViolations
		viols = append(viols, s.Violations...)
		knowns = append(knowns, s.Known...)
		for k, v := range s.KnownCount {
			knownCount[k] += v
		}
		for k, v := range s.Stats {
			stats[k] += v
		}
		for k, v := range s.Maxes {
			if c, ok := maxes[k]; !ok || v > c {
				maxes[k] = v
			}
		}
		for k, ms := range s.Sets {
			if sets[k] == nil {
				sets[k] = map[string]struct{}{}
			}
			for _, m := range ms {
				sets[k][m] = struct{}{}
			}
		}
		for _, sm := range s.Samples {
			if len(samples) < 8 {
				samples = append(samples, sm)
			}
		}
		for k, v := range s.Extra {
			extra[k] = v
		}
		inconcl = append(inconcl, s.Inconclusive...)
		selfc = append(selfc, s.SelfCheck...)
		hb, _ := os.ReadFile(filepath.Join(work, fmt.Sprintf("hashes-%d", i)))
		for j := 0; j+8 <= len(hb); j += 8 {
			hashes[binary.LittleEndian.Uint64(hb[j:])] = struct{}{}
		}
	}
	// race reports
	var raceList []*RaceReport
	for _, r := range races {
		raceList = append(raceList, r)
	}
	sort.Slice(raceList, func(i, j int) bool { return raceList[i].Key < raceList[j].Key })
	for _, r := range raceList {
		if r.Poly {
			nviol++
			viols = append(viols, Violation{Case: "race:" + fmt.Sprintf("%016x", Hash64(r.Key)),
				Msg: fmt.Sprintf("data race reported by the race detector (%d reports with this entry-point pair): %s\n%s", r.Count, r.Key, r.Text)})
		} else {
			selfc = append(selfc, "race report without poly frames (harness race): "+r.Key)
		}
	}
	for _, sc := range selfc {
		inconcl = append(inconcl, "harness self-check failed: "+sc)
	}
	if o.Only == "" && p.MinStats != nil {
		for k, min := range p.MinStats(o.Tier) {
			if stats[k] < min {
				inconcl = append(inconcl, fmt.Sprintf("monitor observed too few events of kind %q: %d < %d", k, stats[k], min))
			}
		}
	}
	if o.Only == "" && evals == 0 && len(viols) == 0 {
		inconcl = append(inconcl, "no executions were observed")
	}

	// ---- known findings
	findings := loadFindings(filepath.Join(o.VerifDir, "KNOWN_FINDINGS.txt"))
	var knownLines []string
	var keys []string
	for k := range knownCount {
		keys = append(keys, k)
	}
	sort.Strings(keys)
	for _, k := range keys {
		listed := false
		for _, f := range findings {
			if f.Kind == "finding" && f.Prop == p.ID && f.Key == k {
				listed = true
				knownLines = append(knownLines, fmt.Sprintf("KNOWN-FINDING: property=%s key=%s reproduced=%d %s", p.ID, k, knownCount[k], f.Text))
			}
		}
		if !listed {
			for _, kn := range knowns {
				if kn.Key == k {
					nviol++
					viols = append(viols, Violation{Case: kn.Case, Msg: "observation matches defect signature '" + k + "', which is not a listed known finding: " + kn.Msg})
				}
			}
		}
	}

	// ---- replays + verdict lines
	exit := 0
	var replayPaths []string
	if len(viols) > 0 {
		exit = 1
		rdir := filepath.Join(o.VerifDir, "replays", p.ID)
		os.MkdirAll(rdir, 0755)
		seen := map[string]bool{}
		for i, v := range viols {
			if i >= 12 {
				break
			}
			name := sanitize(v.Case)
			if seen[name] {
				name = fmt.Sprintf("%s-%d", name, i)
			}
			seen[name] = true
			path := filepath.Join(rdir, name+".json")
			rb, _ := json.MarshalIndent(map[string]any{
				"property": p.ID, "case": v.Case, "seed": o.Seed, "tier": o.Tier, "msg": v.Msg,
				"replay": v.Replay, "hook_on": o.HookOn, "gomaxprocs": runtime.GOMAXPROCS(0),
			}, "", " ")
			os.WriteFile(path, rb, 0644)
			replayPaths = append(replayPaths, path)
			first := v.Msg
			if j := strings.Index(first, "\n"); j >= 0 {
				first = first[:j]
			}
			if len(first) > 300 {
				first = first[:300]
			}
			fmt.Printf("VIOLATION property=%s replay=%s\n", p.ID, path)
			fmt.Printf("  case=%s %s\n", v.Case, first)
		}
		if nviol > int64(len(replayPaths)) {
			fmt.Printf("  (%d violating observations in total; %d written as replay files)\n", nviol, len(replayPaths))
		}
	}
	for _, l := range knownLines {
		fmt.Println(l)
	}
	if exit == 0 && len(inconcl) > 0 {
		exit = 2
	}
	for i, r := range inconcl {
		if i >= 8 {
			break
		}
		if len(r) > 1500 {
			r = r[:1500]
		}
		fmt.Printf("INCONCLUSIVE property=%s reason=%s\n", p.ID, strings.ReplaceAll(r, "\n", " | "))
	}

	// ---- evidence (not rewritten by single-case replays)
	wall := time.Since(t0).Seconds()
	if o.Only == "" {
		cov := map[string]any{
			"evaluations":             evals,
			"distinct_nontrivial":     int64(len(hashes)),
			"nontrivial_total":        nontrivSum,
			"rule":                    p.Rule,
			"samples":                 samples,
			"observed_events":         stats,
			"observed_maxima":         maxes,
			"shards":                  nshards,
			"children_died":           died,
			"race_detector":           p.Race,
			"peak_child_resident_mib": peakRSS >> 20,
			"child_resident_cap_mib":  p.MemCapMiB,
			"cpu_budget_seconds_per_journalled_entry": callCPUSec(p, o.Tier),
			"race_report_blocks":      raceBlocks,
			"race_reports_distinct":   len(raceList),
			"verdict":                 []string{"held on what was observed", "violated", "inconclusive"}[exit],
		}
		if len(samples) == 0 {
			cov["samples"] = []any{"(no sample recorded)"}
		}
		setInfo := map[string]any{}
		for k, m := range sets {
			var ms []string
			for x := range m {
				ms = append(ms, x)
			}
			sort.Strings(ms)
			if len(ms) > 12 {
				setInfo[k] = map[string]any{"distinct": len(m), "first": ms[:12]}
			} else {
				setInfo[k] = map[string]any{"distinct": len(m), "all": ms}
			}
		}
		cov["observed_distinct"] = setInfo
		for k, v := range extra {
			cov[k] = v
		}
		if os.Getenv("VERIF_COVER") != "" {
			if sc := statementCoverage(filepath.Join(work, "cov")); sc != nil {
				cov["statement_coverage_of_poly_files_reached"] = sc
			}
		}
		kf := map[string]int64{}
		for k, v := range knownCount {
			kf[k] = v
		}
		cov["known_findings_reproduced"] = kf
		if p.ID == "C02" {
			if o.HookOn {
				cov["hook"] = "verif tag on: genbank.VerifParseLocation"
			} else {
				cov["hook"] = "unavailable: public-API path only"
			}
		}
		if len(inconcl) > 0 {
			cov["inconclusive_reasons"] = inconcl
		}
		ev := map[string]any{
			"property_id": p.ID,
			"tier":        o.Tier,
			"seed":        o.Seed,
			"level":       p.Level,
			"coverage":    cov,
			"assumptions": p.Assumptions,
			"wall_s":      wall,
			"violations":  nviol,
		}
		eb, _ := json.MarshalIndent(ev, "", " ")
		os.MkdirAll(filepath.Join(o.VerifDir, "evidence"), 0755)
		os.WriteFile(filepath.Join(o.VerifDir, "evidence", p.ID+".json"), eb, 0644)
	}
	verdict := []string{"HELD", "VIOLATED", "INCONCLUSIVE"}[exit]
	fmt.Printf("%s property=%s tier=%s seed=%d evaluations=%d distinct_nontrivial=%d violations=%d known=%d wall=%.1fs\n",
		verdict, p.ID, o.Tier, o.Seed, evals, len(hashes), nviol, len(knownLines), wall)
	return exit
}

func sanitize(s string) string {
	var b strings.Builder
	for _, r := range s {
		if r >= 'a' && r <= 'z' || r >= 'A' && r <= 'Z' || r >= '0' && r <= '9' || r == '-' || r == '_' || r == '.' {
			b.WriteRune(r)
		} else {
			b.WriteByte('_')
		}
	}
	out := b.String()
	if len(out) > 80 {
		out = out[:80]
	}
	if out == "" {
		out = "case"
	}
	return out
}

func callCPUSec(p *Prop, tier string) int {
	if p.CallCPUSec != nil {
		if n := p.CallCPUSec(tier); n > 0 {
			return n
		}
	}
	if tier == "thorough" {
		return 600
	}
	return 120
}

// procCPUms is the CPU time (user+system, all threads) of process pid in milliseconds, -1 if unreadable.
func procCPUms(pid int) int64 {
	b, err := os.ReadFile(fmt.Sprintf("/proc/%d/stat", pid))
	if err != nil {
		return -1
	}
	s := string(b)
	i := strings.LastIndexByte(s, ')') // the command name may contain blanks and parentheses
	if i < 0 {
		return -1
	}
	f := strings.Fields(s[i+1:])
	if len(f) < 13 {
		return -1
	}
	ut, e1 := strconv.ParseInt(f[11], 10, 64) // fields 14 and 15 of the line, in clock ticks (100 per second on Linux)
	st, e2 := strconv.ParseInt(f[12], 10, 64)
	if e1 != nil || e2 != nil {
		return -1
	}
	return (ut + st) * 10
}

func runChild(p *Prop, o Options, work string, shard, nshards, wdSec int) childResult {
	res := childResult{shard: shard}
	logPath := filepath.Join(work, fmt.Sprintf("log-%d", shard))
	lf, _ := os.Create(logPath)
	args := []string{"worker", p.ID, "--tier", o.Tier, "--seed", fmt.Sprint(o.Seed), "--shard", fmt.Sprint(shard),
		"--nshards", fmt.Sprint(nshards), "--dir", work}
	if o.Only != "" {
		args = append(args, "--only", o.Only)
	}
	cmd := exec.Command(o.Exe, args...)
	lw := &limitWriter{f: lf, left: 64 << 20} // a SIGQUIT dump of a runaway child can be gigabytes
	cmd.Stdout = lw
	cmd.Stderr = lw
	cmd.Env = append(os.Environ(),
		"GORACE=halt_on_error=0 history_size=5 log_path="+filepath.Join(work, fmt.Sprintf("race-%d", shard)),
		"GOTRACEBACK=all")
	if os.Getenv("VERIF_COVER") != "" {
		os.MkdirAll(filepath.Join(work, "cov"), 0755)
		cmd.Env = append(cmd.Env, "GOCOVERDIR="+filepath.Join(work, "cov"))
	}
	cmd.SysProcAttr = &syscall.SysProcAttr{Setpgid: true}
	if err := cmd.Start(); err != nil {
		res.exitErr = "cannot start child: " + err.Error()
		return res
	}
	done := make(chan error, 1)
	go func() { done <- cmd.Wait() }()
	var err error
	deadline := time.After(time.Duration(wdSec) * time.Second)
	poll := time.NewTicker(50 * time.Millisecond)
	defer poll.Stop()
	statm := fmt.Sprintf("/proc/%d/statm", cmd.Process.Pid)
	cpuTick := time.NewTicker(time.Second)
	defer cpuTick.Stop()
	journalPath := filepath.Join(work, fmt.Sprintf("journal-%d", shard))
	cpuBudgetSec := callCPUSec(p, o.Tier)
	var lastSeq uint32
	var cpuAtSeq int64
wait:
	for {
		select {
		case err = <-done:
			break wait
		case <-poll.C:
			if b, e := os.ReadFile(statm); e == nil {
				var size, rss int64
				if n, _ := fmt.Sscan(string(b), &size, &rss); n == 2 {
					rss *= int64(os.Getpagesize())
					if rss > res.peakRSS {
						res.peakRSS = rss
					}
					if p.MemCapMiB > 0 && rss > int64(p.MemCapMiB)<<20 {
						res.memCap = true
						syscall.Kill(-cmd.Process.Pid, syscall.SIGKILL)
						err = <-done
						break wait
					}
				}
			}
		case <-cpuTick.C:
			seq := JournalSeq(journalPath)
			cpu := procCPUms(cmd.Process.Pid)
			if seq == 0 || seq != lastSeq || cpu < 0 {
				lastSeq, cpuAtSeq = seq, cpu
				break
			}
			if spent := cpu - cpuAtSeq; spent > int64(cpuBudgetSec)*1000 {
				res.cpuBudget, res.cpuSpentMs = true, spent
				res.jCase, res.jInput, res.jFlight = ReadJournal(journalPath)
				syscall.Kill(-cmd.Process.Pid, syscall.SIGQUIT) // goroutine dump into the child's log
				select {
				case err = <-done:
				case <-time.After(10 * time.Second):
					syscall.Kill(-cmd.Process.Pid, syscall.SIGKILL)
					err = <-done
				}
				break wait
			}
		case <-deadline:
			res.watchdog = true
			syscall.Kill(-cmd.Process.Pid, syscall.SIGQUIT)
			select {
			case err = <-done:
			case <-time.After(10 * time.Second):
				syscall.Kill(-cmd.Process.Pid, syscall.SIGKILL)
				err = <-done
			}
			break wait
		}
	}
	lf.Close()
	if err != nil {
		res.exitErr = err.Error()
	}
	matches, _ := filepath.Glob(filepath.Join(work, fmt.Sprintf("race-%d.*", shard)))
	for _, m := range matches {
		if b, e := os.ReadFile(m); e == nil {
			res.raceLogs = append(res.raceLogs, string(b))
		}
	}
	sb, e := os.ReadFile(filepath.Join(work, fmt.Sprintf("summary-%d.json", shard)))
	if e == nil {
		var s Summary
		if json.Unmarshal(sb, &s) == nil {
			res.sum = &s
			if !res.watchdog {
				return res
			}
			res.watchdog = false // finished its summary before the watchdog: take it
			return res
		}
	}
	res.jCase, res.jInput, res.jFlight = ReadJournal(filepath.Join(work, fmt.Sprintf("journal-%d", shard)))
	h := head(logPath, 1500)
	t := tail(logPath, 1500)
	if len(h) < 1500 {
		res.logTail = h
	} else {
		res.logTail = h + "\n ... \n" + t
	}
	return res
}
