package oracle

import (
	"sort"
	"strings"
)

// ---- Type IIS digestion model (C10) ------------------------------------------
//
// An enzyme is (recognition site, skip, overhang length). A forward-pointing site occupying
// [p, p+|site|) cuts so that its sticky end is the ov bases starting at p+|site|+skip. A
// backward-pointing site (the reverse complement of the site occupying [q, q+|site|)) has its
// sticky end in the ov bases that end at q-skip. A directional digest returns the stretch from
// each forward sticky end to the next cut point, if that next cut point is a backward one, both
// sticky ends included. On a circle all arithmetic is modulo the length and every site counts once.

// Geometry is the enzyme description used by the model.
type Geometry struct {
	Site string // upper case, not its own reverse complement
	Skip int
	Ov   int
}

// SiteOcc is one occurrence of the recognition site.
type SiteOcc struct {
	Pos     int  // index of the first base of the occurrence (0-based; on a circle in [0,L))
	Forward bool // true: the site as written; false: its reverse complement
}

// DigestFragment is one product of a directional digest.
type DigestFragment struct {
	ForwardOverhang, Interior, ReverseOverhang string
}

// Key is a canonical text for multiset comparison.
func (f DigestFragment) Key() string {
	return f.ForwardOverhang + "|" + f.Interior + "|" + f.ReverseOverhang
}

// FindSites lists every occurrence of the site and of its reverse complement in s (upper-cased
// internally), cyclically if circular, ordered by position (forward first at equal positions).
func FindSites(s string, circular bool, g Geometry) []SiteOcc {
	u := strings.ToUpper(s)
	L := len(u)
	n := len(g.Site)
	rc := MustRevComp(g.Site)
	var out []SiteOcc
	if L < n {
		return out
	}
	match := func(p int, pat string) bool {
		for i := 0; i < n; i++ {
			idx := p + i
			if idx >= L {
				if !circular {
					return false
				}
				idx -= L
			}
			if u[idx] != pat[i] {
				return false
			}
		}
		return true
	}
	last := L - n
	if circular {
		last = L - 1
	}
	for p := 0; p <= last; p++ {
		if match(p, g.Site) {
			out = append(out, SiteOcc{p, true})
		}
		if match(p, rc) {
			out = append(out, SiteOcc{p, false})
		}
	}
	return out
}

type cutEvent struct {
	pos     int // forward: first base of the sticky end; backward: one past the last base of the sticky end
	forward bool
}

// DigestStatus describes whether a layout is inside the property's stated restrictions.
type DigestStatus struct {
	SitesOverlap   bool // two site occurrences share a base
	PairTooClose   bool // a forward cut and the backward cut it pairs with are < 2*ov apart
	AmbiguousOrder bool // two cut points coincide, so "next cut point" is not defined
}

// OK reports whether the layout lies inside the restrictions.
func (d DigestStatus) OK() bool { return !d.SitesOverlap && !d.PairTooClose && !d.AmbiguousOrder }

func mod(a, m int) int {
	a %= m
	if a < 0 {
		a += m
	}
	return a
}

// Digest evaluates the model on s. The result is sorted by Key.
func Digest(s string, circular bool, g Geometry) ([]DigestFragment, DigestStatus) {
	u := strings.ToUpper(s)
	L := len(u)
	n := len(g.Site)
	var st DigestStatus
	sites := FindSites(u, circular, g)
	// overlap of occurrences
	for i := 0; i < len(sites); i++ {
		for j := i + 1; j < len(sites); j++ {
			a, b := sites[i].Pos, sites[j].Pos
			d := b - a
			if d < n {
				st.SitesOverlap = true
			}
			if circular && L-d < n {
				st.SitesOverlap = true
			}
		}
	}
	var evs []cutEvent
	for _, so := range sites {
		if so.Forward {
			p := so.Pos + n + g.Skip
			if circular {
				evs = append(evs, cutEvent{mod(p, L), true})
			} else if p+g.Ov <= L {
				evs = append(evs, cutEvent{p, true})
			}
		} else {
			p := so.Pos - g.Skip
			if circular {
				evs = append(evs, cutEvent{mod(p, L), false})
			} else if p-g.Ov >= 0 {
				evs = append(evs, cutEvent{p, false})
			}
		}
	}
	sort.SliceStable(evs, func(i, j int) bool { return evs[i].pos < evs[j].pos })
	for i := 1; i < len(evs); i++ {
		if evs[i].pos == evs[i-1].pos {
			st.AmbiguousOrder = true
		}
	}
	var out []DigestFragment
	cyc := func(from, length int) string {
		if !circular {
			return u[from : from+length]
		}
		var sb strings.Builder
		for sb.Len() < length {
			take := length - sb.Len()
			if from+take > L {
				take = L - from
			}
			sb.WriteString(u[from : from+take])
			from = (from + take) % L
		}
		return sb.String()
	}
	for i, e := range evs {
		if !e.forward {
			continue
		}
		var nx cutEvent
		if i+1 < len(evs) {
			nx = evs[i+1]
		} else if circular {
			nx = evs[0]
		} else {
			continue
		}
		if nx.forward {
			continue
		}
		length := nx.pos - e.pos
		if circular {
			length = mod(length, L)
			if length == 0 {
				length = L
			}
		}
		if length < 2*g.Ov {
			st.PairTooClose = true
			continue
		}
		whole := cyc(e.pos, length)
		out = append(out, DigestFragment{whole[:g.Ov], whole[g.Ov : len(whole)-g.Ov], whole[len(whole)-g.Ov:]})
	}
	sort.Slice(out, func(i, j int) bool { return out[i].Key() < out[j].Key() })
	return out, st
}

// DigestLinearSimple is a second, deliberately naive evaluator for linear sequences: it walks the
// string once with strings.Index and keeps an explicit "open forward cut" state.
func DigestLinearSimple(s string, g Geometry) []DigestFragment {
	u := strings.ToUpper(s)
	rc := MustRevComp(g.Site)
	type ev struct {
		pos int
		fwd bool
	}
	var evs []ev
	for from := 0; ; {
		i := strings.Index(u[from:], g.Site)
		if i < 0 {
			break
		}
		p := from + i + len(g.Site) + g.Skip
		if p+g.Ov <= len(u) {
			evs = append(evs, ev{p, true})
		}
		from += i + 1
	}
	for from := 0; ; {
		i := strings.Index(u[from:], rc)
		if i < 0 {
			break
		}
		p := from + i - g.Skip
		if p-g.Ov >= 0 {
			evs = append(evs, ev{p, false})
		}
		from += i + 1
	}
	sort.SliceStable(evs, func(i, j int) bool { return evs[i].pos < evs[j].pos })
	open := -1
	var out []DigestFragment
	for _, e := range evs {
		if e.fwd {
			open = e.pos
			continue
		}
		if open >= 0 && e.pos-open >= 2*g.Ov {
			w := u[open:e.pos]
			out = append(out, DigestFragment{w[:g.Ov], w[g.Ov : len(w)-g.Ov], w[len(w)-g.Ov:]})
		}
		open = -1
	}
	sort.Slice(out, func(i, j int) bool { return out[i].Key() < out[j].Key() })
	return out
}
