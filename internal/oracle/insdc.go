package oracle

import (
	"fmt"
	"strconv"
	"strings"
)

// INSDC feature-table locations (http://www.insdc.org/files/feature_table.html#3.4):
// spans n..m (1-based, inclusive), single bases n, complement(loc), join(loc,loc,...),
// with the partial markers <n..m and n..>m.

// LocKind enumerates the expression kinds.
type LocKind int

const (
	LocSpan LocKind = iota
	LocSingle
	LocComplement
	LocJoin
)

// Loc is an INSDC location expression.
type Loc struct {
	Kind       LocKind
	Start, End int // 1-based inclusive (Single: Start == End)
	Partial5   bool
	Partial3   bool
	Subs       []*Loc
}

// String prints the expression in INSDC syntax.
func (l *Loc) String() string {
	switch l.Kind {
	case LocSpan:
		s := ""
		if l.Partial5 {
			s += "<"
		}
		s += strconv.Itoa(l.Start) + ".."
		if l.Partial3 {
			s += ">"
		}
		return s + strconv.Itoa(l.End)
	case LocSingle:
		return strconv.Itoa(l.Start)
	case LocComplement:
		return "complement(" + l.Subs[0].String() + ")"
	default:
		parts := make([]string, len(l.Subs))
		for i, s := range l.Subs {
			parts[i] = s.String()
		}
		return "join(" + strings.Join(parts, ",") + ")"
	}
}

// Eval reads the bases the expression denotes on parent; complement uses the oracle's own IUPAC table.
func (l *Loc) Eval(parent string) (string, error) {
	switch l.Kind {
	case LocSpan, LocSingle:
		if l.Start < 1 || l.End > len(parent) || l.Start > l.End {
			return "", fmt.Errorf("span %d..%d outside parent of length %d", l.Start, l.End, len(parent))
		}
		return parent[l.Start-1 : l.End], nil
	case LocComplement:
		s, err := l.Subs[0].Eval(parent)
		if err != nil {
			return "", err
		}
		rc, ok := RevComp(s)
		if !ok {
			return "", fmt.Errorf("non-IUPAC parent")
		}
		return rc, nil
	default:
		var sb strings.Builder
		for _, s := range l.Subs {
			x, err := s.Eval(parent)
			if err != nil {
				return "", err
			}
			sb.WriteString(x)
		}
		return sb.String(), nil
	}
}

// Leaf is one span of the normal form: complements pushed down to the leaves.
type Leaf struct {
	Start, End int
	Minus      bool
	Partial5   bool
	Partial3   bool
}

// Normalize pushes complements to the leaves (reversing operand order under a complement).
// Two expressions denote the same bases with the same partial ends iff their normal forms are equal.
func (l *Loc) Normalize() []Leaf {
	return l.norm(false)
}

func (l *Loc) norm(minus bool) []Leaf {
	switch l.Kind {
	case LocSpan, LocSingle:
		return []Leaf{{l.Start, l.End, minus, l.Partial5, l.Partial3}}
	case LocComplement:
		return l.Subs[0].norm(!minus)
	default:
		var out []Leaf
		if !minus {
			for _, s := range l.Subs {
				out = append(out, s.norm(false)...)
			}
		} else {
			for i := len(l.Subs) - 1; i >= 0; i-- {
				out = append(out, l.Subs[i].norm(true)...)
			}
		}
		return out
	}
}

// SameLeaves compares two normal forms.
func SameLeaves(a, b []Leaf) bool {
	if len(a) != len(b) {
		return false
	}
	for i := range a {
		if a[i] != b[i] {
			return false
		}
	}
	return true
}

// Operators counts complement and join nodes.
func (l *Loc) Operators() int {
	n := 0
	if l.Kind == LocComplement || l.Kind == LocJoin {
		n = 1
	}
	for _, s := range l.Subs {
		n += s.Operators()
	}
	return n
}

// Leaves returns the leaves in textual order.
func (l *Loc) Leaves() []*Loc {
	if l.Kind == LocSpan || l.Kind == LocSingle {
		return []*Loc{l}
	}
	var out []*Loc
	for _, s := range l.Subs {
		out = append(out, s.Leaves()...)
	}
	return out
}

// Depth is the nesting depth of operators.
func (l *Loc) Depth() int {
	d := 0
	for _, s := range l.Subs {
		if x := s.Depth(); x > d {
			d = x
		}
	}
	if l.Kind == LocComplement || l.Kind == LocJoin {
		d++
	}
	return d
}

// ParseLocStrict is a strict recursive-descent parser of the INSDC grammar above.
// It rejects anything else, in particular the notation n..m> for a 3' partial end.
func ParseLocStrict(s string) (*Loc, error) {
	p := &locParser{s: s}
	l, err := p.loc()
	if err != nil {
		return nil, err
	}
	if p.i != len(s) {
		return nil, fmt.Errorf("trailing text %q at %d", s[p.i:], p.i)
	}
	return l, nil
}

type locParser struct {
	s string
	i int
}

func (p *locParser) lit(x string) bool {
	if strings.HasPrefix(p.s[p.i:], x) {
		p.i += len(x)
		return true
	}
	return false
}

func (p *locParser) num() (int, bool) {
	j := p.i
	for j < len(p.s) && p.s[j] >= '0' && p.s[j] <= '9' {
		j++
	}
	if j == p.i || (p.s[p.i] == '0' && j > p.i+1) {
		return 0, false
	}
	n, err := strconv.Atoi(p.s[p.i:j])
	if err != nil || n < 1 {
		return 0, false
	}
	p.i = j
	return n, true
}

func (p *locParser) loc() (*Loc, error) {
	if p.lit("complement(") {
		sub, err := p.loc()
		if err != nil {
			return nil, err
		}
		if !p.lit(")") {
			return nil, fmt.Errorf("expected ')' at %d in %q", p.i, p.s)
		}
		return &Loc{Kind: LocComplement, Subs: []*Loc{sub}}, nil
	}
	if p.lit("join(") {
		l := &Loc{Kind: LocJoin}
		for {
			sub, err := p.loc()
			if err != nil {
				return nil, err
			}
			l.Subs = append(l.Subs, sub)
			if p.lit(",") {
				continue
			}
			if p.lit(")") {
				break
			}
			return nil, fmt.Errorf("expected ',' or ')' at %d in %q", p.i, p.s)
		}
		if len(l.Subs) < 2 {
			return nil, fmt.Errorf("join with fewer than two operands in %q", p.s)
		}
		return l, nil
	}
	p5 := p.lit("<")
	a, ok := p.num()
	if !ok {
		return nil, fmt.Errorf("expected a position at %d in %q", p.i, p.s)
	}
	if !p.lit("..") {
		if p5 {
			return nil, fmt.Errorf("partial marker on a single base at %d in %q", p.i, p.s)
		}
		return &Loc{Kind: LocSingle, Start: a, End: a}, nil
	}
	p3 := p.lit(">")
	b, ok := p.num()
	if !ok {
		return nil, fmt.Errorf("expected an end position at %d in %q", p.i, p.s)
	}
	if b < a {
		return nil, fmt.Errorf("descending span %d..%d in %q", a, b, p.s)
	}
	return &Loc{Kind: LocSpan, Start: a, End: b, Partial5: p5, Partial3: p3}, nil
}
