package oracle

import (
	"sort"
	"strings"
)

// ---- ligation model (C09) -----------------------------------------------------
//
// A pool is a list of double-stranded fragments with a 5' sticky end on each side, written on one
// strand as (forward overhang, interior, reverse overhang). A fragment may be used as written or
// flipped: (rc(reverse), rc(interior), rc(forward)). Two fragments join when the reverse overhang of
// the first equals the forward overhang of the second (in the orientation used). A ring is a cyclic
// chain of fragments each joined to the next and the last to the first; its molecule is the cyclic
// concatenation overhang+interior+overhang+interior+... A ring is *simple* when no overhang string is
// passed twice on the way round. Molecules are identified by Canonical(_, circular, double stranded).

// LigFragment is one fragment of the pool (upper case).
type LigFragment struct {
	Fwd, Seq, Rev string
}

func (f LigFragment) flipped() LigFragment {
	return LigFragment{MustRevComp(f.Rev), MustRevComp(f.Seq), MustRevComp(f.Fwd)}
}

// LigateResult is what the sequential enumeration found.
type LigateResult struct {
	Rings      map[string]string // canonical form -> one spelling (start overhang first)
	BytesBuilt int64             // total length of the partial chains built (progress measure)
	Nodes      int64             // chains visited
}

// SimpleRings enumerates every simple ring of the pool sequentially, depth first, with an explicit
// visited list. It terminates for every finite pool because a chain never passes an overhang twice.
func SimpleRings(pool []LigFragment) LigateResult {
	res := LigateResult{Rings: map[string]string{}}
	var dfs func(start, cur, seq string, visited []string)
	dfs = func(start, cur, seq string, visited []string) {
		res.Nodes++
		res.BytesBuilt += int64(len(seq))
		if cur == start {
			spelling := start + seq
			c := Canonical(spelling, true, true)
			if _, ok := res.Rings[c]; !ok {
				res.Rings[c] = spelling
			}
			return
		}
		for _, v := range visited {
			if v == cur {
				return
			}
		}
		nv := append(append([]string{}, visited...), cur)
		palin := MustRevComp(cur) == cur
		for _, g := range pool {
			if g.Fwd == cur {
				dfs(start, g.Rev, seq+cur+g.Seq, nv)
			}
			if !palin {
				if fl := g.flipped(); fl.Fwd == cur {
					dfs(start, fl.Rev, seq+cur+fl.Seq, nv)
				}
			}
		}
	}
	for _, f := range pool {
		dfs(f.Fwd, f.Rev, f.Seq, nil)
	}
	return res
}

// IsClosedWalk reports whether the circular molecule spelled by construct can be tiled, on the given
// strand, by fragments of the pool (as written or flipped) each joined to the next through a shared
// overhang and the last to the first. maxNodes bounds the search (false, false on exhaustion).
// With once set, every supplied fragment may be used at most once (a fragment supplied twice, twice).
func IsClosedWalk(construct string, pool []LigFragment, maxNodes int, once bool) (ok bool, decided bool) {
	u := strings.ToUpper(construct)
	L := len(u)
	if L == 0 {
		return false, true
	}
	type unit struct {
		fwd, seq, rev string
		idx           int
	}
	var units []unit
	for i, g := range pool {
		units = append(units, unit{g.Fwd, g.Seq, g.Rev, i})
		f := g.flipped()
		units = append(units, unit{f.Fwd, f.Seq, f.Rev, i})
	}
	taken := make([]bool, len(pool))
	dd := u + u + u
	nodes := 0
	// tile from offset o: at position pos (0-based within dd, starting at o) the pending overhang is ov
	var walk func(o, used int, ov, first string) bool
	walk = func(o, used int, ov, first string) bool {
		nodes++
		if nodes > maxNodes {
			return false
		}
		if used == L {
			return ov == first
		}
		if used > L {
			return false
		}
		for _, un := range units {
			if un.fwd != ov {
				continue
			}
			piece := un.fwd + un.seq
			if used+len(piece) > L || o+used+len(piece)+len(un.rev) > len(dd) {
				continue
			}
			if dd[o+used:o+used+len(piece)] != piece {
				continue
			}
			if dd[o+used+len(piece):o+used+len(piece)+len(un.rev)] != un.rev {
				continue
			}
			if once && taken[un.idx] {
				continue
			}
			taken[un.idx] = true
			found := walk(o, used+len(piece), un.rev, first)
			taken[un.idx] = false
			if found {
				return true
			}
		}
		return false
	}
	seenFirst := map[string]bool{}
	for _, un := range units {
		seenFirst[un.fwd] = true
	}
	var firsts []string
	for f := range seenFirst {
		firsts = append(firsts, f)
	}
	sort.Strings(firsts)
	for o := 0; o < L; o++ {
		for _, f := range firsts {
			if o+len(f) <= len(dd) && dd[o:o+len(f)] == f {
				if walk(o, 0, f, f) {
					return true, true
				}
				if nodes > maxNodes {
					return false, false
				}
			}
		}
	}
	return false, true
}
