package oracle

import "sort"

// The NCBI genetic codes, encoded as the standard code (amino acid -> codons)
// plus, per table, NCBI's documented "differences from the standard code" and
// explicit initiation / termination codon lists ("The Genetic Codes", NCBI
// Taxonomy; the termination list is the set of '*' marks of the table's
// sncbieaa line, i.e. it includes context-dependent terminators of tables 27, 28, 31).
// Deliberately not the 64-letter strings poly uses.

var standardCode = map[string][]string{
	"F": {"TTT", "TTC"},
	"L": {"TTA", "TTG", "CTT", "CTC", "CTA", "CTG"},
	"I": {"ATT", "ATC", "ATA"},
	"M": {"ATG"},
	"V": {"GTT", "GTC", "GTA", "GTG"},
	"S": {"TCT", "TCC", "TCA", "TCG", "AGT", "AGC"},
	"P": {"CCT", "CCC", "CCA", "CCG"},
	"T": {"ACT", "ACC", "ACA", "ACG"},
	"A": {"GCT", "GCC", "GCA", "GCG"},
	"Y": {"TAT", "TAC"},
	"*": {"TAA", "TAG", "TGA"},
	"H": {"CAT", "CAC"},
	"Q": {"CAA", "CAG"},
	"N": {"AAT", "AAC"},
	"K": {"AAA", "AAG"},
	"D": {"GAT", "GAC"},
	"E": {"GAA", "GAG"},
	"C": {"TGT", "TGC"},
	"W": {"TGG"},
	"R": {"CGT", "CGC", "CGA", "CGG", "AGA", "AGG"},
	"G": {"GGT", "GGC", "GGA", "GGG"},
}

// GeneticCode is one NCBI translation table.
type GeneticCode struct {
	ID     int
	Name   string
	Diff   map[string]string // codon -> amino acid, differences from the standard code
	Starts []string
	Stops  []string
}

// GeneticCodes lists the 25 tables poly offers.
var GeneticCodes = []GeneticCode{
	{1, "Standard", nil, []string{"TTG", "CTG", "ATG"}, []string{"TAA", "TAG", "TGA"}},
	{2, "Vertebrate Mitochondrial", map[string]string{"AGA": "*", "AGG": "*", "ATA": "M", "TGA": "W"},
		[]string{"ATT", "ATC", "ATA", "ATG", "GTG"}, []string{"TAA", "TAG", "AGA", "AGG"}},
	{3, "Yeast Mitochondrial", map[string]string{"ATA": "M", "CTT": "T", "CTC": "T", "CTA": "T", "CTG": "T", "TGA": "W"},
		[]string{"ATA", "ATG", "GTG"}, []string{"TAA", "TAG"}},
	{4, "Mold, Protozoan, Coelenterate Mitochondrial; Mycoplasma/Spiroplasma", map[string]string{"TGA": "W"},
		[]string{"TTA", "TTG", "CTG", "ATT", "ATC", "ATA", "ATG", "GTG"}, []string{"TAA", "TAG"}},
	{5, "Invertebrate Mitochondrial", map[string]string{"AGA": "S", "AGG": "S", "ATA": "M", "TGA": "W"},
		[]string{"TTG", "ATT", "ATC", "ATA", "ATG", "GTG"}, []string{"TAA", "TAG"}},
	{6, "Ciliate, Dasycladacean and Hexamita Nuclear", map[string]string{"TAA": "Q", "TAG": "Q"},
		[]string{"ATG"}, []string{"TGA"}},
	{9, "Echinoderm and Flatworm Mitochondrial", map[string]string{"AAA": "N", "AGA": "S", "AGG": "S", "TGA": "W"},
		[]string{"ATG", "GTG"}, []string{"TAA", "TAG"}},
	{10, "Euplotid Nuclear", map[string]string{"TGA": "C"}, []string{"ATG"}, []string{"TAA", "TAG"}},
	{11, "Bacterial, Archaeal and Plant Plastid", nil,
		[]string{"TTG", "CTG", "ATT", "ATC", "ATA", "ATG", "GTG"}, []string{"TAA", "TAG", "TGA"}},
	{12, "Alternative Yeast Nuclear", map[string]string{"CTG": "S"}, []string{"CTG", "ATG"}, []string{"TAA", "TAG", "TGA"}},
	{13, "Ascidian Mitochondrial", map[string]string{"AGA": "G", "AGG": "G", "ATA": "M", "TGA": "W"},
		[]string{"TTG", "ATA", "ATG", "GTG"}, []string{"TAA", "TAG"}},
	{14, "Alternative Flatworm Mitochondrial", map[string]string{"AAA": "N", "AGA": "S", "AGG": "S", "TAA": "Y", "TGA": "W"},
		[]string{"ATG"}, []string{"TAG"}},
	{16, "Chlorophycean Mitochondrial", map[string]string{"TAG": "L"}, []string{"ATG"}, []string{"TAA", "TGA"}},
	{21, "Trematode Mitochondrial", map[string]string{"TGA": "W", "ATA": "M", "AGA": "S", "AGG": "S", "AAA": "N"},
		[]string{"ATG", "GTG"}, []string{"TAA", "TAG"}},
	{22, "Scenedesmus obliquus Mitochondrial", map[string]string{"TCA": "*", "TAG": "L"}, []string{"ATG"}, []string{"TCA", "TAA", "TGA"}},
	{23, "Thraustochytrium Mitochondrial", map[string]string{"TTA": "*"}, []string{"ATT", "ATG", "GTG"}, []string{"TTA", "TAA", "TAG", "TGA"}},
	{24, "Rhabdopleuridae Mitochondrial", map[string]string{"AGA": "S", "AGG": "K", "TGA": "W"},
		[]string{"TTG", "CTG", "ATG", "GTG"}, []string{"TAA", "TAG"}},
	{25, "Candidate Division SR1 and Gracilibacteria", map[string]string{"TGA": "G"}, []string{"TTG", "ATG", "GTG"}, []string{"TAA", "TAG"}},
	{26, "Pachysolen tannophilus Nuclear", map[string]string{"CTG": "A"}, []string{"CTG", "ATG"}, []string{"TAA", "TAG", "TGA"}},
	{27, "Karyorelict Nuclear", map[string]string{"TAG": "Q", "TAA": "Q", "TGA": "W"}, []string{"ATG"}, []string{"TGA"}},
	{28, "Condylostoma Nuclear", map[string]string{"TAA": "Q", "TAG": "Q", "TGA": "W"}, []string{"ATG"}, []string{"TAA", "TAG", "TGA"}},
	{29, "Mesodinium Nuclear", map[string]string{"TAA": "Y", "TAG": "Y"}, []string{"ATG"}, []string{"TGA"}},
	{30, "Peritrich Nuclear", map[string]string{"TAA": "E", "TAG": "E"}, []string{"ATG"}, []string{"TGA"}},
	{31, "Blastocrithidia Nuclear", map[string]string{"TGA": "W", "TAG": "E", "TAA": "E"}, []string{"ATG"}, []string{"TAA", "TAG"}},
	{33, "Cephalodiscidae Mitochondrial UAA-Tyr", map[string]string{"TAA": "Y", "TGA": "W", "AGA": "S", "AGG": "K"},
		[]string{"TTG", "CTG", "ATG", "GTG"}, []string{"TAG"}},
}

// CodeByID returns the table with the given NCBI id.
func CodeByID(id int) *GeneticCode {
	for i := range GeneticCodes {
		if GeneticCodes[i].ID == id {
			return &GeneticCodes[i]
		}
	}
	return nil
}

// AminoAcid returns the residue (or "*") NCBI assigns to an upper-case codon under this table.
func (g *GeneticCode) AminoAcid(codon string) string {
	if aa, ok := g.Diff[codon]; ok {
		return aa
	}
	for aa, cs := range standardCode {
		for _, c := range cs {
			if c == codon {
				return aa
			}
		}
	}
	return ""
}

// Translate translates complete in-frame codons, ignoring a trailing partial codon, case-insensitively.
func (g *GeneticCode) Translate(dna string) string {
	out := make([]byte, 0, len(dna)/3)
	for i := 0; i+3 <= len(dna); i += 3 {
		c := []byte(dna[i : i+3])
		for j := range c {
			c[j] = upperByte(c[j])
		}
		aa := g.AminoAcid(string(c))
		if aa == "" {
			out = append(out, '?')
		} else {
			out = append(out, aa[0])
		}
	}
	return string(out)
}

// Synonyms returns, for this table, amino acid -> sorted codon list.
func (g *GeneticCode) Synonyms() map[string][]string {
	m := map[string][]string{}
	for _, c := range AllCodons() {
		aa := g.AminoAcid(c)
		m[aa] = append(m[aa], c)
	}
	for k := range m {
		sort.Strings(m[k])
	}
	return m
}

// AllCodons lists the 64 codons.
func AllCodons() []string {
	var out []string
	for _, a := range "ACGT" {
		for _, b := range "ACGT" {
			for _, c := range "ACGT" {
				out = append(out, string([]rune{a, b, c}))
			}
		}
	}
	return out
}
