// Package oracle holds the reference models. Nothing in this package imports poly.
package oracle

import (
	"sort"
	"strings"
)

// ---- IUPAC nucleotide codes as base sets -----------------------------------

// iupacSets maps each upper-case IUPAC DNA code to the set of bases it stands for,
// as a bitmask over A=1, C=2, G=4, T=8 (NC-IUB 1984).
var iupacSets = map[byte]int{
	'A': 1, 'C': 2, 'G': 4, 'T': 8,
	'R': 1 | 4, 'Y': 2 | 8, 'S': 2 | 4, 'W': 1 | 8, 'K': 4 | 8, 'M': 1 | 2,
	'B': 2 | 4 | 8, 'D': 1 | 4 | 8, 'H': 1 | 2 | 8, 'V': 1 | 2 | 4, 'N': 15,
}

// IUPACCodes lists the 15 codes in a fixed order.
const IUPACCodes = "ACGTRYSWKMBDHVN"

var setToCode = func() map[int]byte {
	m := map[int]byte{}
	for c, s := range iupacSets {
		m[s] = c
	}
	return m
}()

func complementSet(s int) int {
	// A<->T, C<->G
	out := 0
	if s&1 != 0 {
		out |= 8
	}
	if s&8 != 0 {
		out |= 1
	}
	if s&2 != 0 {
		out |= 4
	}
	if s&4 != 0 {
		out |= 2
	}
	return out
}

// ComplementCode complements one IUPAC code (either case; U/u complement to A/a),
// derived from the base sets: the code of the set of complementary bases.
// ok is false for bytes that are not IUPAC nucleotide codes.
func ComplementCode(c byte) (byte, bool) {
	lower := c >= 'a' && c <= 'z'
	u := c
	if lower {
		u = c - 32
	}
	if u == 'U' {
		if lower {
			return 'a', true
		}
		return 'A', true
	}
	s, ok := iupacSets[u]
	if !ok {
		return 0, false
	}
	r := setToCode[complementSet(s)]
	if lower {
		r += 32
	}
	return r, true
}

// RevComp is the reverse complement over IUPAC codes, case preserved.
// Bytes outside the code set make ok false.
func RevComp(s string) (string, bool) {
	out := make([]byte, len(s))
	for i := 0; i < len(s); i++ {
		c, ok := ComplementCode(s[i])
		if !ok {
			return "", false
		}
		out[len(s)-1-i] = c
	}
	return string(out), true
}

// MustRevComp panics on non-IUPAC input (generator bug).
func MustRevComp(s string) string {
	r, ok := RevComp(s)
	if !ok {
		panic("oracle.RevComp: non-IUPAC input " + s)
	}
	return r
}

// Expand returns every concrete A/C/G/T sequence an IUPAC string stands for, sorted.
func Expand(s string) []string {
	out := []string{""}
	for i := 0; i < len(s); i++ {
		set := iupacSets[upperByte(s[i])]
		var next []string
		for _, p := range out {
			for bi, b := range []byte("ACGT") {
				if set&(1<<uint(bi)) != 0 {
					next = append(next, p+string(b))
				}
			}
		}
		out = next
	}
	sort.Strings(out)
	return out
}

// ExpansionSize is the number of concrete sequences of an IUPAC string (capped at limit+1).
func ExpansionSize(s string, limit int) int {
	n := 1
	for i := 0; i < len(s); i++ {
		set := iupacSets[upperByte(s[i])]
		k := 0
		for b := 0; b < 4; b++ {
			if set&(1<<uint(b)) != 0 {
				k++
			}
		}
		n *= k
		if n > limit {
			return limit + 1
		}
	}
	return n
}

func upperByte(c byte) byte {
	if c >= 'a' && c <= 'z' {
		return c - 32
	}
	return c
}

// ---- least rotation -----------------------------------------------------------

// LeastRotationBrute returns the lexicographically least rotation by trying all of them.
func LeastRotationBrute(s string) string {
	if len(s) == 0 {
		return s
	}
	d := s + s
	best := s
	for k := 1; k < len(s); k++ {
		if r := d[k : k+len(s)]; r < best {
			best = r
		}
	}
	return best
}

// LeastRotationTwoPointer is the classical i/j/k minimal-rotation scan (not Booth's algorithm).
func LeastRotationTwoPointer(s string) string {
	n := len(s)
	if n == 0 {
		return s
	}
	i, j, k := 0, 1, 0
	for i < n && j < n && k < n {
		a, b := s[(i+k)%n], s[(j+k)%n]
		if a == b {
			k++
			continue
		}
		if a > b {
			i += k + 1
		} else {
			j += k + 1
		}
		if i == j {
			j++
		}
		k = 0
	}
	st := i
	if j < st {
		st = j
	}
	return s[st:] + s[:st]
}

// LeastRotation picks brute force for short inputs and the two-pointer scan for long ones.
func LeastRotation(s string) string {
	if len(s) <= 64 {
		return LeastRotationBrute(s)
	}
	return LeastRotationTwoPointer(s)
}

// IsRotation reports whether r is a rotation of s.
func IsRotation(s, r string) bool {
	if len(s) != len(r) {
		return false
	}
	if len(s) == 0 {
		return true
	}
	return strings.Contains(s+s, r)
}

// Canonical is the canonical representative of a molecule for seqhash purposes:
// upper-cased (done by the caller), least rotation if circular, lesser strand if double stranded.
func Canonical(seqUpper string, circular, double bool) string {
	a := seqUpper
	if circular {
		a = LeastRotation(a)
	}
	if !double {
		return a
	}
	b := MustRevComp(seqUpper)
	if circular {
		b = LeastRotation(b)
	}
	if b < a {
		return b
	}
	return a
}
