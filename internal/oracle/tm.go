package oracle

import "math"

// Unified nearest-neighbour parameters (SantaLucia 1998 / SantaLucia & Hicks 2004),
// transcribed by Watson-Crick pair class: each class lists the dinucleotide and
// its reverse complement, which describe the same stacked pair.
type nnClass struct {
	a, b   string
	dH, dS float64
}

var nnClasses = []nnClass{
	{"AA", "TT", -7.6, -21.3},
	{"AT", "AT", -7.2, -20.4},
	{"TA", "TA", -7.2, -21.3},
	{"CA", "TG", -8.5, -22.7},
	{"GT", "AC", -8.4, -22.4},
	{"CT", "AG", -7.8, -21.0},
	{"GA", "TC", -8.2, -22.2},
	{"CG", "CG", -10.6, -27.2},
	{"GC", "GC", -9.8, -24.4},
	{"GG", "CC", -8.0, -19.9},
}

func nnLookup(d string) (float64, float64, bool) {
	for _, c := range nnClasses {
		if c.a == d || c.b == d {
			return c.dH, c.dS, true
		}
	}
	return 0, 0, false
}

// SantaLucia computes Tm, dH, dS of an A/C/G/T oligo (any case) by the formula
// stated in the property: initiation 0.2/-5.7; symmetry 0/-1.4 and f=1 for
// self-complementary oligos, f=4 otherwise; terminal penalty 2.2/6.9 once when
// the 3'-terminal base is A or T; salt term 0.368 (N-1) ln(Na + 140 Mg) (von Ahsen 1999);
// Tm = dH*1000 / (dS + R ln(C/f)) - 273.15 with R = 1.9872.
func SantaLucia(seq string, oligo, na, mg float64) (tm, dH, dS float64) {
	u := make([]byte, len(seq))
	for i := 0; i < len(seq); i++ {
		u[i] = upperByte(seq[i])
	}
	s := string(u)
	dH, dS = 0.2, -5.7
	f := 4.0
	if rc, ok := RevComp(s); ok && rc == s {
		dS += -1.4
		f = 1
	}
	if last := s[len(s)-1]; last == 'A' || last == 'T' {
		dH += 2.2
		dS += 6.9
	}
	dS += 0.368 * float64(len(s)-1) * math.Log(na+140*mg)
	for i := 0; i+1 < len(s); i++ {
		h, e, _ := nnLookup(s[i : i+2])
		dH += h
		dS += e
	}
	tm = dH*1000/(dS+1.9872*math.Log(oligo/f)) - 273.15
	return
}

// TmDenominator returns dS + R ln(C/f), the sign of which (with dH) defines the duplex-forming regime.
func TmDenominator(seq string, oligo, na, mg float64) float64 {
	_, _, dS := SantaLucia(seq, oligo, na, mg)
	f := 4.0
	u := make([]byte, len(seq))
	for i := 0; i < len(seq); i++ {
		u[i] = upperByte(seq[i])
	}
	if rc, ok := RevComp(string(u)); ok && rc == string(u) {
		f = 1
	}
	return dS + 1.9872*math.Log(oligo/f)
}
