package props

import (
	"bytes"
	"compress/gzip"
	"fmt"
	"os"
	"path/filepath"

	"github.com/TimothyStiles/poly"
	"github.com/TimothyStiles/poly/io/genbank"

	"verif/internal/gen"
	"verif/internal/mon"
)

func init() {
	mon.Register(&mon.Prop{
		ID: "C01", Level: "exploration",
		Rule: "files laid out by the harness's independent GenBank writer from abstract records: sequence lengths 1..3000 plus the boundary lengths 1, 9, 10, 11, 59..61, 99..101, 999..1001 (thorough: up to 10^5), molecule types DNA/mRNA/tRNA/rRNA x topology linear/circular/none x 18 divisions, lower-case locus names (some holding a molecule-type word, a topology word inside a longer word or a date), 0..40 features incl. features without qualifiers and multi-line locations, qualifier values over printable ASCII without the double quote ('/' and '=' with raised probability, also as first character of a wrapped line), flags, numbers and hard-wrapped /translation, 0..5 references incl. REMARK, 0..3 extra keyword blocks, 1..5 records per file, with/without final newline, with/without the 10-line header, wrap width 60..79; entry points Parse, ParseMulti, ParseFlat and the Read* wrappers (temp files, gzip); non-trivial = the file contains a feature, a reference or a wrapped block; distinct by hash of the file",
		Assumptions: []string{
			"oracle: the abstract record itself; the writer follows the GenBank release-notes layout (keyword cols 1-12, data from col 13, sub-keywords at col 3/4, feature key col 6, location/qualifiers col 22, 60-base ORIGIN lines) and wraps text at blanks only, so re-joining wrapped lines with one blank is exact",
			"harness self-check on every file: the harness's own column-based reader recovers the abstract record from the written file",
		},
		Shards: tierShards(16, 16), WatchdogSec: tierSecs(900, 3600),
		MinStats: func(string) map[string]int64 {
			return map[string]int64{"records_compared": 1000, "features_without_qualifiers": 100, "multi_line_locations": 100, "files_without_final_newline": 50, "files_with_header": 50}
		},
		Run: runC01,
	})
}

// scribble overwrites a byte buffer the caller handed to a parser: the caller is free to reuse its read
// buffer once the call has returned, and the result must not change with it.
func scribble(b []byte) {
	scribbleSeen++
	for i := range b {
		b[i] = "/=\" 0Zz\n"[i%8]
	}
}

var scribbleSeen int

// unchangedThenScribble reports a parser that wrote into the bytes it was given (the caller still owns them:
// a second parse of the same slice, or writing them to disk, must see the file as it was), then overwrites them.
func unchangedThenScribble(w *mon.W, id, what string, b []byte, orig string) {
	if string(b) != orig {
		at := 0
		for at < len(b) && at < len(orig) && b[at] == orig[at] {
			at++
		}
		w.Violation(id, fmt.Sprintf("%s changed the bytes it was given (first difference at offset %d of %d): the caller's copy of the file is no longer the file", what, at, len(orig)), map[string]any{"input": clip(orig, 4000)})
	}
	scribble(b)
}

type c01Kept struct {
	rec *gen.GBRecord
	got poly.Sequence
}

var c01Earlier []c01Kept

var boundaryLens = []int{1, 9, 10, 11, 59, 60, 61, 99, 100, 101, 999, 1000, 1001, 2, 12, 120, 121}

func c01SeqLen(w *mon.W, r interface{ Intn(int) int }, k int) int {
	if k < 3*len(boundaryLens) {
		return boundaryLens[k%len(boundaryLens)]
	}
	switch r.Intn(4) {
	case 0:
		return 1 + r.Intn(70)
	case 1:
		return 1 + r.Intn(500)
	default:
		return 1 + r.Intn(3000)
	}
}

func runC01(w *mon.W) {
	nFiles := w.Pick(20000, 500000)
	nBig := w.Pick(20, 400)
	tmp := filepath.Join(w.Dir, fmt.Sprintf("c01-%d", w.Shard))
	os.MkdirAll(tmp, 0755)
	defer os.RemoveAll(tmp)
	for k := 0; k < nFiles+nBig; k++ {
		id := fmt.Sprintf("file-%d", k)
		if !w.Want(id, k) {
			continue
		}
		r := w.Rand(id)
		nrec := 1
		if r.Intn(3) == 0 {
			nrec = 1 + r.Intn(5)
		}
		var recs []*gen.GBRecord
		for i := 0; i < nrec; i++ {
			sl := c01SeqLen(w, r, k)
			mf, mt := 12, 400
			if r.Intn(6) == 0 {
				mf, mt = 40, 2000
			}
			if k >= nFiles {
				sl = 20000 + r.Intn(80001)
				mf = 40
			}
			recs = append(recs, gen.RandGBRecord(r, sl, mf, mt))
		}
		lay := gen.RandLayout(r)
		header := r.Intn(4) == 0
		bigEntry := -1
		if k >= nFiles {
			// files with 20,000..100,000-base records go through every entry point in turn
			bigEntry = (k - nFiles) % 6
			header = bigEntry >= 3
		}
		file := gen.WriteGBFile(recs, lay, header, r)
		w.Begin(id, file)

		// harness self-check: own reader recovers the records
		if back, err := gen.ReadGBFile(file, header); err != nil || len(back) != len(recs) {
			w.SelfCheckFail(fmt.Sprintf("%s: gbread(gbwrite(R)) failed: %v (%d records)", id, err, len(back)))
			w.End()
			continue
		} else {
			bad := false
			for i := range recs {
				if d := gen.DiffGB(recs[i], back[i]); d != "" {
					w.SelfCheckFail(fmt.Sprintf("%s: gbread(gbwrite(R)) != R: %s", id, d))
					bad = true
					break
				}
			}
			if bad {
				w.End()
				continue
			}
		}

		nontriv := false
		for _, rec := range recs {
			if len(rec.Features) > 0 || len(rec.Refs) > 0 || len(rec.Definition) > lay.Width-12 {
				nontriv = true
			}
			for _, f := range rec.Features {
				if len(f.Quals) == 0 {
					w.Add("features_without_qualifiers", 1)
				}
				if len(gen.WrapLocation(f.Loc.String(), lay.LocWidth)) > 1 {
					w.Add("multi_line_locations", 1)
				}
				if len(gen.WrapLocation(f.Loc.String(), lay.LocWidth)) > 2 {
					w.Add("locations_on_3_or_more_lines", 1)
				}
				w.Add("features", 1)
				w.Add("qualifiers", int64(len(f.Quals)))
			}
			w.Add("references", int64(len(rec.Refs)))
			w.Add("extra_keyword_blocks", int64(len(rec.Extras)))
			w.Max("max_sequence_length", int64(len(rec.Seq)))
		}
		if !lay.FinalNewline {
			w.Add("files_without_final_newline", 1)
		}
		if header {
			w.Add("files_with_header", 1)
		}
		if nrec > 1 {
			w.Add("multi_record_files", 1)
		}
		w.Eval(nontriv, mon.Hash64(file))
		rep := map[string]any{"file": file, "header": header, "records": nrec}

		// choose the entry point
		var got []poly.Sequence
		entry := ""
		var p string
		mode := r.Intn(6)
		if bigEntry >= 0 {
			mode = []int{0, 1, 5, 0, 1, 2}[bigEntry] // Read, Parse (ParseMulti if several records), ReadMulti, ParseFlat, ReadFlat, ReadFlatGz
		}
		switch {
		case header:
			switch mode % 3 {
			case 0:
				entry = "ParseFlat"
				buf := []byte(file)
				p = mon.Try(func() { got = genbank.ParseFlat(buf) })
				unchangedThenScribble(w, id, "genbank.ParseFlat", buf, file)
			case 1:
				entry = "ReadFlat"
				path := filepath.Join(tmp, "f.seq")
				os.WriteFile(path, []byte(file), 0644)
				p = mon.Try(func() { got = genbank.ReadFlat(path) })
			default:
				entry = "ReadFlatGz"
				path := filepath.Join(tmp, "f.seq.gz")
				var buf bytes.Buffer
				zw := gzip.NewWriter(&buf)
				zw.Write([]byte(file))
				zw.Close()
				os.WriteFile(path, buf.Bytes(), 0644)
				p = mon.Try(func() { got = genbank.ReadFlatGz(path) })
			}
		case nrec == 1 && mode < 3:
			if mode == 0 {
				entry = "Read"
				path := filepath.Join(tmp, "f.gb")
				os.WriteFile(path, []byte(file), 0644)
				p = mon.Try(func() { got = []poly.Sequence{genbank.Read(path)} })
			} else {
				entry = "Parse"
				buf := []byte(file)
				p = mon.Try(func() { got = []poly.Sequence{genbank.Parse(buf)} })
				unchangedThenScribble(w, id, "genbank.Parse", buf, file)
			}
		default:
			if mode == 5 {
				entry = "ReadMulti"
				path := filepath.Join(tmp, "f.gb")
				os.WriteFile(path, []byte(file), 0644)
				p = mon.Try(func() { got = genbank.ReadMulti(path) })
			} else {
				entry = "ParseMulti"
				buf := []byte(file)
				p = mon.Try(func() { got = genbank.ParseMulti(buf) })
				unchangedThenScribble(w, id, "genbank.ParseMulti", buf, file)
			}
		}
		w.Add("entry_"+entry, 1)
		rep["entry_point"] = entry
		if p != "" {
			w.Violation(id, fmt.Sprintf("genbank.%s on a well-formed file (%d records, header=%v, final newline=%v): %s", entry, nrec, header, lay.FinalNewline, p), rep)
			w.End()
			continue
		}
		if len(got) != len(recs) {
			w.Violation(id, fmt.Sprintf("genbank.%s returned %d results for a file holding %d records (header=%v, final newline=%v)", entry, len(got), len(recs), header, lay.FinalNewline), rep)
			w.End()
			continue
		}
		// results returned for earlier files must not change when later files are parsed
		for _, e := range c01Earlier {
			w.Add("earlier_results_rechecked", 1)
			if d := compareGB(e.rec, e.got); len(d) > 0 {
				w.Violation(id, "a result returned by an earlier genbank parse call changed after later calls: "+joinDiffs(d, 3), rep)
				c01Earlier = nil
				break
			}
		}
		if len(c01Earlier) >= 3 {
			c01Earlier = c01Earlier[1:]
		}
		c01Earlier = append(c01Earlier, c01Kept{recs[0], got[0]})
		for i, rec := range recs {
			w.Add("records_compared", 1)
			if d := compareGB(rec, got[i]); len(d) > 0 {
				w.Violation(id, fmt.Sprintf("genbank.%s, record %d of %d: %s", entry, i+1, nrec, joinDiffs(d, 4)), rep)
				break
			}
			// each result equals the result of parsing that record alone
			if nrec > 1 {
				alone := gen.WriteGB(rec, lay)
				var one poly.Sequence
				if pp := mon.Try(func() { one = genbank.Parse([]byte(alone)) }); pp != "" {
					w.Violation(id, fmt.Sprintf("genbank.Parse of record %d alone: %s", i+1, pp), rep)
					break
				} else if d := compareGB(rec, one); len(d) > 0 {
					w.Violation(id, fmt.Sprintf("genbank.Parse of record %d alone: %s", i+1, joinDiffs(d, 4)), rep)
					break
				}
			}
		}
		w.End()
		if w.WantSample() && len(file) < 1500 && nontriv {
			w.Sample(map[string]any{"case": id, "entry_point": entry, "file": file})
		}
	}
}
