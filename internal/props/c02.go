package props

import (
	"fmt"
	"math/rand"
	"regexp"
	"sort"
	"strings"

	"github.com/TimothyStiles/poly"
	"github.com/TimothyStiles/poly/io/genbank"

	"verif/internal/mon"
	"verif/internal/oracle"
)

func init() {
	mon.Register(&mon.Prop{
		ID: "C02", Level: "exploration",
		Rule: "complete enumeration of all operator shapes with <= 3 operators (complement, join of arity 2..3) over a 6-base parent with every one of the 27 leaves (21 spans + 6 single bases) in shapes of <= 3 leaves and a PRNG sample of leaf assignments in larger shapes, each also with one random assignment of partial markers; plus random expressions (depth <= 4, join arity 2..6, partial markers, parents of 1..2000 mixed-case IUPAC letters). Each expression is evaluated through three paths (text -> parser, structure with partial flags on leaves only, structure with flags on leaves and ancestors) and each structure is written back and re-read by a strict INSDC parser. non-trivial = at least one operator; distinct by hash of (expression text, parent)",
		Assumptions: []string{
			"oracle: own INSDC expression type, printer, strict recursive-descent parser and evaluator (1-based inclusive spans; join concatenates; complement = reverse complement by the harness's own IUPAC table)",
			"location equality is semantic: equal normal forms (complements pushed to the leaves), i.e. the same bases in the same order on the same strands with the same partial markers",
			"structures for the assembled path follow the public struct semantics: Complement on a node means reverse complement of what the node denotes; a complement of a complemented node is a node with one sub-location",
		},
		Shards: tierShards(16, 16), WatchdogSec: tierSecs(900, 3600),
		MinStats: func(string) map[string]int64 {
			return map[string]int64{"text_path_evaluations": 10000, "structure_path_evaluations": 20000, "written_locations_reparsed": 20000, "through_genbank_Parse": 200}
		},
		Run: runC02,
	})
}

// toStruct builds the poly.Location structure of an expression.
// ancestors=false: partial flags on leaves only; true: also on every ancestor (as poly's parser does).
func toStruct(e *oracle.Loc, ancestors bool) poly.Location {
	var loc poly.Location
	switch e.Kind {
	case oracle.LocSpan, oracle.LocSingle:
		loc = poly.Location{Start: e.Start - 1, End: e.End, FivePrimePartial: e.Partial5, ThreePrimePartial: e.Partial3}
	case oracle.LocJoin:
		loc = poly.Location{Join: true}
		for _, s := range e.Subs {
			loc.SubLocations = append(loc.SubLocations, toStruct(s, ancestors))
		}
	case oracle.LocComplement:
		sub := toStruct(e.Subs[0], ancestors)
		if !sub.Complement {
			sub.Complement = true
			return sub
		}
		loc = poly.Location{Complement: true, SubLocations: []poly.Location{sub}}
	}
	if ancestors && e.Kind != oracle.LocSpan && e.Kind != oracle.LocSingle {
		for _, lf := range e.Leaves() {
			if lf.Partial5 {
				loc.FivePrimePartial = true
			}
			if lf.Partial3 {
				loc.ThreePrimePartial = true
			}
		}
	}
	return loc
}

// toStructWrapped represents complement(x) as {Complement: true, SubLocations: [x]} throughout.
func toStructWrapped(e *oracle.Loc) poly.Location {
	switch e.Kind {
	case oracle.LocJoin:
		loc := poly.Location{Join: true}
		for _, s := range e.Subs {
			loc.SubLocations = append(loc.SubLocations, toStructWrapped(s))
		}
		return loc
	case oracle.LocComplement:
		return poly.Location{Complement: true, SubLocations: []poly.Location{toStructWrapped(e.Subs[0])}}
	}
	return poly.Location{Start: e.Start - 1, End: e.End, FivePrimePartial: e.Partial5, ThreePrimePartial: e.Partial3}
}

// c02FeatureDress picks a feature key and qualifiers as they occur on real features (CDS with /codon_start,
// /transl_table, /translation; gene; mRNA; exon with /number): none of them changes the bases a location denotes.
func c02FeatureDress(h uint64) (string, map[string]string) {
	switch h % 6 {
	case 0, 1:
		return "CDS", map[string]string{"codon_start": []string{"1", "2", "3"}[(h/6)%3], "transl_table": []string{"11", "1", "4"}[(h/18)%3], "product": "x", "translation": "MK"}
	case 2:
		return "gene", map[string]string{"gene": "x", "locus_tag": "X_0001"}
	case 3:
		return "mRNA", map[string]string{"product": "x"}
	case 4:
		return "exon", map[string]string{"number": fmt.Sprint(1 + (h/6)%9)}
	}
	return "misc_feature", map[string]string{"note": "x"}
}

func featureSeq(w *mon.W, id, parent string, loc poly.Location) (string, string) {
	var got string
	defer func() { retainCheck(w, id, "GetSequence", got, "Feature.GetSequence on an assembled feature") }()
	p := mon.Try(func() {
		var seq poly.Sequence
		seq.Sequence = parent
		// what a location denotes does not depend on the kind of feature it belongs to or on its qualifiers
		ty, attrs := c02FeatureDress(mon.Hash64(parent, fmt.Sprint(loc.Start, loc.End, len(loc.SubLocations))))
		f := poly.Feature{Type: ty, SequenceLocation: loc, Attributes: attrs}
		seq.AddFeature(&f)
		got = seq.Features[0].GetSequence()
	})
	return got, p
}

// featureTableLocation returns the location text of the first feature of a GenBank text: columns 22.. of the
// feature line and of the continuation lines up to the first qualifier.
func featureTableLocation(text string) string {
	lines := strings.Split(text, "\n")
	var sb strings.Builder
	in := false
	for _, ln := range lines {
		switch {
		case !in && strings.HasPrefix(ln, "     ") && len(ln) > 21 && ln[5] != ' ':
			in = true
			sb.WriteString(strings.TrimSpace(ln[21:]))
		case in && strings.HasPrefix(ln, strings.Repeat(" ", 21)) && !strings.HasPrefix(strings.TrimSpace(ln), "/"):
			sb.WriteString(strings.TrimSpace(ln))
		case in:
			return sb.String()
		}
	}
	return sb.String()
}

var k2Rewrite = regexp.MustCompile(`(\d+)\.\.(\d+)>`)

// wrapLocation breaks a location text after commas so that no line exceeds width.
func wrapLocation(text string, width int) []string {
	var lines []string
	for len(text) > width {
		cut := strings.LastIndex(text[:width], ",")
		if cut < 0 {
			break
		}
		lines = append(lines, text[:cut+1])
		text = text[cut+1:]
	}
	return append(lines, text)
}

func minimalRecord(parent, locText string) string {
	var sb strings.Builder
	fmt.Fprintf(&sb, "LOCUS       test%12d bp    DNA     linear   SYN 01-JAN-2020\n", len(parent))
	sb.WriteString("DEFINITION  location test.\n")
	sb.WriteString("FEATURES             Location/Qualifiers\n")
	lines := wrapLocation(locText, 58)
	key, attrs := c02FeatureDress(mon.Hash64(locText, parent))
	sb.WriteString("     " + key + strings.Repeat(" ", 16-len(key)) + lines[0] + "\n")
	for _, l := range lines[1:] {
		sb.WriteString(strings.Repeat(" ", 21) + l + "\n")
	}
	var ks []string
	for k := range attrs {
		ks = append(ks, k)
	}
	sort.Strings(ks)
	for _, k := range ks {
		if k == "codon_start" || k == "transl_table" || k == "number" {
			fmt.Fprintf(&sb, "                     /%s=%s\n", k, attrs[k])
		} else {
			fmt.Fprintf(&sb, "                     /%s=\"%s\"\n", k, attrs[k])
		}
	}
	sb.WriteString("ORIGIN\n")
	for i := 0; i < len(parent); i += 60 {
		end := i + 60
		if end > len(parent) {
			end = len(parent)
		}
		fmt.Fprintf(&sb, "%9d", i+1)
		for j := i; j < end; j += 10 {
			e := j + 10
			if e > end {
				e = end
			}
			sb.WriteString(" " + parent[j:e])
		}
		sb.WriteString("\n")
	}
	sb.WriteString("//\n")
	return sb.String()
}

func c02Judge(w *mon.W, id string, x *oracle.Loc, parent string, viaParse bool) {
	text := x.String()
	want, err := x.Eval(parent)
	if err != nil {
		w.SelfCheckFail("generator produced an expression outside its parent: " + text)
		return
	}
	if y, e := oracle.ParseLocStrict(text); e != nil || !oracle.SameLeaves(y.Normalize(), x.Normalize()) || y.String() != text {
		w.SelfCheckFail(fmt.Sprintf("insdc.parse(insdc.print(x)) != x for %s: %v", text, e))
		return
	}
	w.Eval(x.Operators() >= 1, mon.Hash64(text, parent))
	rep := map[string]any{"location": text, "parent": parent}
	xn := x.Normalize()

	type built struct {
		name string
		loc  poly.Location
	}
	var structs []built
	// (i) text path
	var parsed poly.Location
	parsedOK := false
	if viaParse || !HookAvailable {
		rec := minimalRecord(parent, text)
		plainRec := rec
		switch mon.Hash64(text, parent) % 3 {
		case 1: // the same record with CR LF line ends
			rec = strings.ReplaceAll(rec, "\n", "\r\n")
			w.Add("records_with_crlf_line_ends", 1)
		case 2: // the same record with every line padded with blanks to 80 columns
			ls := strings.Split(rec, "\n")
			for i, l := range ls {
				if l != "" && len(l) < 80 {
					ls[i] = l + strings.Repeat(" ", 80-len(l))
				}
			}
			rec = strings.Join(ls, "\n")
			w.Add("records_padded_to_80_columns", 1)
		}
		var s poly.Sequence
		if p := mon.Try(func() { buf := []byte(rec); s = genbank.Parse(buf); unchangedThenScribble(w, id, "genbank.Parse", buf, rec) }); p != "" {
			w.Violation(id, fmt.Sprintf("genbank.Parse of a record with location %s: %s", clip(text, 120), p), rep)
		} else if len(s.Features) != 1 || s.Sequence != parent {
			w.Violation(id, fmt.Sprintf("genbank.Parse of a minimal record with location %s returned %d features, sequence length %d (want 1, %d)", clip(text, 120), len(s.Features), len(s.Sequence), len(parent)), rep)
		} else {
			w.Add("through_genbank_Parse", 1)
			var got string
			if p := mon.Try(func() { got = s.Features[0].GetSequence() }); p != "" {
				w.Violation(id, fmt.Sprintf("GetSequence of the feature parsed from %s: %s", clip(text, 120), p), rep)
			} else {
				w.Add("text_path_evaluations", 1)
				retainCheck(w, id, "GetSequence", got, "Feature.GetSequence on a feature parsed from "+clip(text, 80))
				if got != want {
					w.Violation(id, fmt.Sprintf("feature parsed (genbank.Parse) from %s on %q reports %q, INSDC reading is %q", clip(text, 120), clip(parent, 40), clip(got, 60), clip(want, 60)), rep)
				}
			}
			parsed, parsedOK = s.Features[0].SequenceLocation, true
			// the same record as one of several in a file: every record's features report bases of their own record
			other := strings.Repeat("t", 1+len(parent)/2)
			// (plain LF layout: the record separator of multi-record files is the line "//")
			files := [][2]string{{plainRec + minimalRecord(other, "1"), "first"}, {minimalRecord(other, "1") + plainRec, "last"}}
			for _, f := range files {
				var many []poly.Sequence
				if p := mon.Try(func() { many = genbank.ParseMulti([]byte(f[0])) }); p != "" || len(many) != 2 {
					w.Violation(id, fmt.Sprintf("genbank.ParseMulti of a two-record file (the record with location %s %s): %s, %d results", clip(text, 120), f[1], p, len(many)), rep)
					continue
				}
				idx, oidx := 0, 1
				if f[1] == "last" {
					idx, oidx = 1, 0
				}
				var got, gotOther string
				p := mon.Try(func() {
					got = many[idx].Features[0].GetSequence()
					gotOther = many[oidx].Features[0].GetSequence()
				})
				w.Add("through_genbank_ParseMulti", 1)
				if p != "" || got != want || gotOther != "t" {
					w.Violation(id, fmt.Sprintf("two-record file, the record with location %s %s: its feature reports %q (INSDC reading %q), the other record's feature 1 reports %q (its base is \"t\") %s", clip(text, 120), f[1], clip(got, 60), clip(want, 60), clip(gotOther, 20), p), rep)
				}
			}
		}
	}
	if HookAvailable {
		if p := mon.Try(func() { parsed = hookParseLocation(text) }); p != "" {
			w.Violation(id, fmt.Sprintf("parsing location %s: %s", clip(text, 160), p), rep)
			parsedOK = false
		} else {
			parsedOK = true
			got, p := featureSeq(w, id, parent, parsed)
			w.Add("text_path_evaluations", 1)
			if p != "" {
				w.Violation(id, fmt.Sprintf("GetSequence of the feature parsed from %s: %s", clip(text, 160), p), rep)
			} else if got != want {
				w.Violation(id, fmt.Sprintf("feature parsed from %s on %q reports %q, INSDC reading is %q", clip(text, 160), clip(parent, 40), clip(got, 60), clip(want, 60)), rep)
			}
		}
	}
	if parsedOK {
		structs = append(structs, built{"parsed from text", parsed})
	}
	// (ii) structure path, two normal forms
	for form := 0; form < 3; form++ {
		anc := form == 1
		loc := toStruct(x, anc)
		name := "assembled structure (flags on leaves)"
		if anc {
			name = "assembled structure (flags on leaves and ancestors)"
		}
		if form == 2 {
			// every complement(...) as a node of its own around its operand, as a program composing locations writes it
			loc = toStructWrapped(x)
			name = "assembled structure (complement as a wrapper node)"
		}
		got, p := featureSeq(w, id, parent, loc)
		w.Add("structure_path_evaluations", 1)
		if p != "" {
			w.Violation(id, fmt.Sprintf("GetSequence of %s for %s: %s", name, clip(text, 160), p), rep)
		} else if got != want {
			w.Violation(id, fmt.Sprintf("%s for %s on %q reports %q, INSDC reading is %q", name, clip(text, 160), clip(parent, 40), clip(got, 60), clip(want, 60)), rep)
		}
		structs = append(structs, built{name, loc})
	}
	// (iii) write back and re-read strictly
	for _, b := range structs {
		var out string
		if p := mon.Try(func() { out = genbank.BuildLocationString(b.loc) }); p != "" {
			w.Violation(id, fmt.Sprintf("BuildLocationString of %s for %s: %s", b.name, clip(text, 160), p), rep)
			continue
		}
		w.Add("written_locations_reparsed", 1)
		retainCheck(w, id, "BuildLocationString", out, "BuildLocationString of "+clip(text, 80))
		y, e := oracle.ParseLocStrict(out)
		if e != nil {
			fixed := k2Rewrite.ReplaceAllString(out, "$1..>$2")
			if y2, e2 := oracle.ParseLocStrict(fixed); fixed != out && e2 == nil && oracle.SameLeaves(y2.Normalize(), xn) {
				w.Known("three-prime-partial-syntax", id, fmt.Sprintf("location %s is written back as %q (3' partial marker after the end position instead of n..>m)", clip(text, 100), clip(out, 100)))
				continue
			}
			w.Violation(id, fmt.Sprintf("%s for %s is written as %q, which is not valid INSDC syntax: %v", b.name, clip(text, 160), clip(out, 160), e), rep)
			continue
		}
		if !oracle.SameLeaves(y.Normalize(), xn) {
			w.Violation(id, fmt.Sprintf("%s for %s is written as %q, which denotes different bases or partial ends", b.name, clip(text, 160), clip(out, 160)), rep)
		}
	}
	// (v) the same through genbank.Build: the location text of the feature table (wrapped over several lines
	// when it is long) must be valid INSDC syntax for the same leaves
	if viaParse || len(text) > 50 {
		for _, b := range structs {
			var seq poly.Sequence
			seq.Sequence = parent
			seq.Meta.Locus = poly.Locus{Name: "x", SequenceLength: fmt.Sprint(len(parent)), MoleculeType: "DNA", GenbankDivision: "SYN", ModificationDate: "01-JAN-2020", SequenceCoding: "bp", Linear: true}
			f := poly.Feature{Type: "misc_feature", SequenceLocation: b.loc, Attributes: map[string]string{"note": "x"}}
			seq.AddFeature(&f)
			var out []byte
			if p := mon.Try(func() { out = genbank.Build(seq) }); p != "" {
				w.Violation(id, fmt.Sprintf("genbank.Build of a record whose feature has %s for %s: %s", b.name, clip(text, 160), p), rep)
				continue
			}
			written := featureTableLocation(string(out))
			w.Add("locations_written_by_Build", 1)
			if len(written) > 58 {
				w.Add("locations_written_by_Build_over_several_lines", 1)
			}
			y, e := oracle.ParseLocStrict(written)
			if e != nil {
				fixed := k2Rewrite.ReplaceAllString(written, "$1..>$2")
				if y2, e2 := oracle.ParseLocStrict(fixed); fixed != written && e2 == nil && oracle.SameLeaves(y2.Normalize(), xn) {
					w.Known("three-prime-partial-syntax", id, fmt.Sprintf("location %s is written by Build as %q", clip(text, 100), clip(written, 100)))
					continue
				}
				w.Violation(id, fmt.Sprintf("%s for %s is written by genbank.Build as %q, which is not valid INSDC syntax: %v", b.name, clip(text, 160), clip(written, 200), e), rep)
				continue
			}
			if !oracle.SameLeaves(y.Normalize(), xn) {
				w.Violation(id, fmt.Sprintf("%s for %s is written by genbank.Build as %q, which denotes different bases or partial ends", b.name, clip(text, 160), clip(written, 200)), rep)
			}
		}
	}
	// (iv) writing must not alter the structure: same bases and same text afterwards
	for _, b := range structs {
		var out1, out2 string
		if p := mon.Try(func() { out1 = genbank.BuildLocationString(b.loc) }); p != "" {
			continue
		}
		got, p := featureSeq(w, id, parent, b.loc)
		w.Add("evaluations_after_writing", 1)
		if p != "" || got != want {
			w.Violation(id, fmt.Sprintf("after BuildLocationString, %s for %s reports %q %s instead of %q: writing altered the location", b.name, clip(text, 160), clip(got, 60), p, clip(want, 60)), rep)
			continue
		}
		if mon.Try(func() { out2 = genbank.BuildLocationString(b.loc) }) == "" && out1 != out2 {
			w.Violation(id, fmt.Sprintf("%s for %s is written as %q the first time and %q the second time", b.name, clip(text, 160), clip(out1, 100), clip(out2, 100)), rep)
		}
	}
}

// ---- shape enumeration --------------------------------------------------------

// shapes returns all operator trees with exactly ops operators (complement, join of arity 2..maxArity);
// leaves are placeholders.
func shapes(ops, maxArity int) []*oracle.Loc {
	if ops == 0 {
		return []*oracle.Loc{{Kind: oracle.LocSpan}}
	}
	var out []*oracle.Loc
	for _, s := range shapes(ops-1, maxArity) {
		out = append(out, &oracle.Loc{Kind: oracle.LocComplement, Subs: []*oracle.Loc{s}})
	}
	for ar := 2; ar <= maxArity; ar++ {
		// distribute ops-1 operators over ar operands
		var rec func(k, left int, cur []*oracle.Loc)
		rec = func(k, left int, cur []*oracle.Loc) {
			if k == ar {
				if left == 0 {
					out = append(out, &oracle.Loc{Kind: oracle.LocJoin, Subs: append([]*oracle.Loc(nil), cur...)})
				}
				return
			}
			for n := 0; n <= left; n++ {
				for _, s := range shapes(n, maxArity) {
					rec(k+1, left-n, append(cur, s))
				}
			}
		}
		rec(0, ops-1, nil)
	}
	return out
}

func cloneLoc(l *oracle.Loc) *oracle.Loc {
	c := *l
	c.Subs = nil
	for _, s := range l.Subs {
		c.Subs = append(c.Subs, cloneLoc(s))
	}
	return &c
}

func allLeaves(n int) []oracle.Loc {
	var out []oracle.Loc
	for a := 1; a <= n; a++ {
		for b := a; b <= n; b++ {
			out = append(out, oracle.Loc{Kind: oracle.LocSpan, Start: a, End: b})
		}
	}
	for a := 1; a <= n; a++ {
		out = append(out, oracle.Loc{Kind: oracle.LocSingle, Start: a, End: a})
	}
	return out
}

func setLeaves(x *oracle.Loc, leaves []oracle.Loc, r *rand.Rand, partial bool) {
	for i, lf := range x.Leaves() {
		*lf = leaves[i]
		if partial && lf.Kind == oracle.LocSpan {
			lf.Partial5 = r.Intn(4) == 0
			lf.Partial3 = r.Intn(4) == 0
		}
	}
}

func randLoc(r *rand.Rand, depth, plen int) *oracle.Loc {
	k := r.Intn(10)
	if depth == 0 || k < 3 {
		a := 1 + r.Intn(plen)
		if r.Intn(5) == 0 {
			return &oracle.Loc{Kind: oracle.LocSingle, Start: a, End: a}
		}
		b := a + r.Intn(plen-a+1)
		if r.Intn(3) == 0 {
			b = a + r.Intn(min(plen-a+1, 8))
		}
		return &oracle.Loc{Kind: oracle.LocSpan, Start: a, End: b, Partial5: r.Intn(7) == 0, Partial3: r.Intn(7) == 0}
	}
	if k < 6 {
		return &oracle.Loc{Kind: oracle.LocComplement, Subs: []*oracle.Loc{randLoc(r, depth-1, plen)}}
	}
	ar := 2 + r.Intn(5)
	if r.Intn(2) == 0 {
		ar = 2 + r.Intn(2)
	}
	l := &oracle.Loc{Kind: oracle.LocJoin}
	for i := 0; i < ar; i++ {
		d := depth - 1
		if r.Intn(2) == 0 {
			d = 0
		}
		if i > 0 && r.Intn(6) == 0 {
			// alternative forms of one element: an earlier part again, sharing one boundary of its first span and
			// differing by one to three bases at the other (transcripts with a common 3' or 5' end)
			sib := cloneLoc(l.Subs[r.Intn(i)])
			leaf := sib
			for len(leaf.Subs) > 0 {
				leaf = leaf.Subs[0]
			}
			if leaf.Kind == oracle.LocSpan {
				if d := 1 + r.Intn(3); r.Intn(2) == 0 && leaf.Start+d <= leaf.End {
					leaf.Start += d
				} else if leaf.Start-d >= 1 {
					leaf.Start -= d
				} else if leaf.End+d <= plen {
					leaf.End += d
				}
				l.Subs = append(l.Subs, sib)
				continue
			}
		}
		l.Subs = append(l.Subs, randLoc(r, d, plen))
	}
	return l
}

// c02Siblings: several features of one record whose multi-line locations begin with the same line and go on
// differently (splice variants sharing their leading exons). Each must report its own bases.
func c02Siblings(w *mon.W, id string, r *rand.Rand) {
	plen := 200 + r.Intn(1800)
	parent := randCase(r, randString(r, "ACGT", plen), []float64{0, 1}[r.Intn(2)])
	span := func() *oracle.Loc {
		a := 1 + r.Intn(plen)
		b := a + r.Intn(plen-a+1)
		return &oracle.Loc{Kind: oracle.LocSpan, Start: a, End: b}
	}
	var shared []*oracle.Loc
	for n := 0; n < 66; {
		sp := span()
		shared = append(shared, sp)
		n += len(sp.String()) + 1
	}
	nf := 2 + r.Intn(3)
	var locs []*oracle.Loc
	for f := 0; f < nf; f++ {
		j := &oracle.Loc{Kind: oracle.LocJoin, Subs: append([]*oracle.Loc(nil), shared...)}
		for k := 1 + r.Intn(6); k > 0; k-- {
			j.Subs = append(j.Subs, span())
		}
		locs = append(locs, j)
	}
	outer := r.Intn(3) == 0
	var sb strings.Builder
	fmt.Fprintf(&sb, "LOCUS       test%12d bp    DNA     linear   SYN 01-JAN-2020\n", plen)
	sb.WriteString("DEFINITION  location test.\nFEATURES             Location/Qualifiers\n")
	firstLines := map[string]int{}
	for f, x := range locs {
		if outer {
			x = &oracle.Loc{Kind: oracle.LocComplement, Subs: []*oracle.Loc{x}}
			locs[f] = x
		}
		lines := wrapLocation(x.String(), 58)
		firstLines[lines[0]]++
		key := []string{"mRNA", "CDS", "mRNA", "misc_feature"}[f%4]
		sb.WriteString("     " + key + strings.Repeat(" ", 16-len(key)) + lines[0] + "\n")
		for _, l := range lines[1:] {
			sb.WriteString(strings.Repeat(" ", 21) + l + "\n")
		}
		fmt.Fprintf(&sb, "                     /note=\"variant %d\"\n", f+1)
	}
	sb.WriteString("ORIGIN\n")
	for i := 0; i < plen; i += 60 {
		end := i + 60
		if end > plen {
			end = plen
		}
		fmt.Fprintf(&sb, "%9d", i+1)
		for j := i; j < end; j += 10 {
			e := j + 10
			if e > end {
				e = end
			}
			sb.WriteString(" " + parent[j:e])
		}
		sb.WriteString("\n")
	}
	sb.WriteString("//\n")
	rec := sb.String()
	w.Begin(id, rec)
	defer w.End()
	w.Eval(true, mon.Hash64(rec))
	if len(firstLines) != 1 {
		w.Add("sibling_records_whose_first_lines_differ", 1)
	}
	rep := map[string]any{"record": rec}
	var s poly.Sequence
	if p := mon.Try(func() { buf := []byte(rec); s = genbank.Parse(buf); unchangedThenScribble(w, id, "genbank.Parse", buf, rec) }); p != "" {
		w.Violation(id, "genbank.Parse of a record with sibling features: "+p, rep)
		return
	}
	if len(s.Features) != nf {
		w.Violation(id, fmt.Sprintf("genbank.Parse of a record with %d sibling features returned %d features", nf, len(s.Features)), rep)
		return
	}
	for f, x := range locs {
		want, err := x.Eval(parent)
		if err != nil {
			w.SelfCheckFail("sibling generator produced an expression outside its parent")
			return
		}
		var got string
		if p := mon.Try(func() { got = s.Features[f].GetSequence() }); p != "" {
			w.Violation(id, fmt.Sprintf("GetSequence of sibling feature %d (%s): %s", f+1, clip(x.String(), 120), p), rep)
			return
		}
		w.Add("sibling_features_evaluated", 1)
		if got != want {
			w.Violation(id, fmt.Sprintf("feature %d of %d whose locations begin with the same line reports %q, the INSDC reading of its own location %s is %q", f+1, nf, clip(got, 60), clip(x.String(), 160), clip(want, 60)), rep)
			return
		}
	}
}

func runC02(w *mon.W) {
	idx := 0
	for k := 0; k < w.Pick(1500, 30000); k++ {
		id := fmt.Sprintf("siblings-%d", k)
		idx++
		if !w.Want(id, idx) {
			continue
		}
		c02Siblings(w, id, w.Rand(id))
	}
	parents6 := []string{"ACGTRM", "gaTKcy"}
	leaves := allLeaves(6)
	maxArity := w.Pick(3, 4)
	fullLeafLimit := w.Pick(3, 4)
	sampleN := w.Pick(150, 1500)
	var parts []string
	nshape := 0
	for ops := 0; ops <= 3; ops++ {
		for si, sh := range shapes(ops, maxArity) {
			nl := len(sh.Leaves())
			id := fmt.Sprintf("shape-o%d-%d", ops, si)
			idx++
			nshape++
			if !w.Want(id, idx) {
				continue
			}
			r := w.Rand(id)
			w.Begin(id, "shape "+sh.String())
			if nl <= fullLeafLimit {
				total := ipow(len(leaves), nl)
				for k := int64(0); k < total; k++ {
					ls := make([]oracle.Loc, nl)
					kk := k
					for i := nl - 1; i >= 0; i-- {
						ls[i] = leaves[kk%int64(len(leaves))]
						kk /= int64(len(leaves))
					}
					x := cloneLoc(sh)
					setLeaves(x, ls, r, false)
					c02Judge(w, id, x, parents6[0], false)
					if k%7 == 0 {
						y := cloneLoc(sh)
						setLeaves(y, ls, r, true)
						c02Judge(w, id, y, parents6[1], k%301 == 0)
					}
				}
				w.Add("shapes_with_all_leaf_assignments", 1)
				w.Add("exhaustive_expressions", total)
			} else {
				for k := 0; k < sampleN; k++ {
					ls := make([]oracle.Loc, nl)
					for i := range ls {
						ls[i] = leaves[r.Intn(len(leaves))]
					}
					x := cloneLoc(sh)
					setLeaves(x, ls, r, k%2 == 1)
					c02Judge(w, id, x, parents6[k%2], k%97 == 0)
				}
				w.Add("shapes_with_sampled_leaf_assignments", 1)
			}
			w.End()
		}
	}
	parts = append(parts, fmt.Sprintf("every operator shape with <= 3 operators and join arity 2..%d (%d shapes); every assignment of the 27 leaves over a 6-base parent for shapes with <= %d leaves; larger shapes: %d PRNG leaf assignments each", maxArity, nshape, fullLeafLimit, sampleN))
	w.Extra("exhaustive_parts", parts)

	nRand := w.Pick(200000, 4000000)
	nParse := w.Pick(4000, 40000)
	if !HookAvailable {
		nRand = w.Pick(4000, 60000)
	}
	const blk = 500
	for start := 0; start < nRand; start += blk {
		id := fmt.Sprintf("rand-b%d", start/blk)
		idx++
		if !w.Want(id, idx) {
			continue
		}
		r := w.Rand(id)
		w.Begin(id, fmt.Sprintf("random expressions %d..%d", start, start+blk-1))
		for k := 0; k < blk; k++ {
			plen := 1 + r.Intn(2000)
			switch r.Intn(3) {
			case 0:
				plen = 1 + r.Intn(12)
			case 1:
				plen = 1 + r.Intn(100)
			}
			parent := randCase(r, randString(r, oracle.IUPACCodes, plen), []float64{0, 0.5, 1}[r.Intn(3)])
			x := randLoc(r, 1+r.Intn(4), plen)
			if r.Intn(4) == 0 && !strings.Contains(x.String(), "complement") {
				// spans, single positions and joins read the same way on a protein parent (GenPept records: Region,
				// Site, mat_peptide); only complement needs nucleotides
				parent = randCase(r, randString(r, "ACDEFGHIKLMNPQRSTVWYXBZJOU", plen), []float64{0, 1}[r.Intn(2)])
				w.Add("expressions_on_protein_parents", 1)
			}
			cid := fmt.Sprintf("%s/%d", id, k)
			c02Judge(w, cid, x, parent, (start+k)%(nRand/nParse+1) == 0)
			w.Max("max_operators", int64(x.Operators()))
			w.Max("max_depth", int64(x.Depth()))
			w.Max("max_leaves", int64(len(x.Leaves())))
			if w.WantSample() && x.Operators() >= 3 && plen < 60 {
				ev, _ := x.Eval(parent)
				w.Sample(map[string]any{"location": x.String(), "parent": parent, "insdc_reading": ev})
			}
		}
		w.End()
	}
}
