package props

import (
	"bytes"
	"fmt"
	"math/rand"
	"os"
	"path/filepath"
	"reflect"
	"strings"

	"github.com/TimothyStiles/poly"
	"github.com/TimothyStiles/poly/io/genbank"

	"verif/internal/gen"
	"verif/internal/mon"
	"verif/internal/oracle"
)

func init() {
	mon.Register(&mon.Prop{
		ID: "C03", Level: "exploration",
		Rule: "records in the image of genbank.Parse over generated files (see C01) and generated poly.Sequence structures (0..40 features with 0..8 qualifiers, with and without cached location text, 0..5 references with remarks, 0..4 extra keyword blocks, metadata up to 2000 characters, lengths 1..3000, thorough up to 10^5; some structures named with an upper-case division code inside a lower-case name, some with a short qualifier value holding two adjacent quotation marks); every record is built 20 times (byte comparison), parsed back by poly and read by the harness's column-based reader; a sample goes through Write/Read on a temp file; the determinism workload has >= 10 features of 4..8 qualifiers and 3..5 keyword blocks per record; non-trivial = at least one feature with a qualifier, a reference or a wrapped block; distinct by hash of the first build output",
		Assumptions: []string{
			"independent reader: column-based GenBank reader written from the release notes (internal/gen/gbread.go); it must also recover every file the harness's own writer produces (checked in C01)",
			"location equality is semantic (same normal form: bases, order, strand, partial markers)",
			"texts are words separated by single blanks without leading/trailing blanks (re-wrapping is then lossless)",
		},
		Shards: tierShards(16, 16), WatchdogSec: tierSecs(900, 3600),
		MinStats: func(string) map[string]int64 {
			return map[string]int64{"records_round_tripped": 1000, "determinism_rich_records": 300, "independent_reader_comparisons": 1000, "builds_compared": 20000}
		},
		Run: runC03,
	})
}

// fromStruct converts a poly.Location into an INSDC expression (flags from the leaves only).
func fromStruct(l poly.Location) *oracle.Loc {
	var e *oracle.Loc
	switch {
	case len(l.SubLocations) == 0:
		e = &oracle.Loc{Kind: oracle.LocSpan, Start: l.Start + 1, End: l.End, Partial5: l.FivePrimePartial, Partial3: l.ThreePrimePartial}
	case l.Join:
		e = &oracle.Loc{Kind: oracle.LocJoin}
		for _, s := range l.SubLocations {
			e.Subs = append(e.Subs, fromStruct(s))
		}
	default:
		e = fromStruct(l.SubLocations[0])
		if len(l.SubLocations) > 1 {
			e = &oracle.Loc{Kind: oracle.LocJoin}
			for _, s := range l.SubLocations {
				e.Subs = append(e.Subs, fromStruct(s))
			}
		}
	}
	if l.Complement {
		e = &oracle.Loc{Kind: oracle.LocComplement, Subs: []*oracle.Loc{e}}
	}
	return e
}

// seqFromRecord assembles a poly.Sequence from an abstract record, as a program using the library would.
var c03CodeNames int

func seqFromRecord(rec *gen.GBRecord, r *rand.Rand, cachedText bool) poly.Sequence {
	var s poly.Sequence
	s.Sequence = rec.Seq
	s.Meta.Locus = poly.Locus{Name: rec.Name, SequenceLength: fmt.Sprint(len(rec.Seq)), MoleculeType: rec.MolType, GenbankDivision: rec.Division,
		ModificationDate: rec.Date, SequenceCoding: "bp", Circular: rec.Topology == "circular", Linear: rec.Topology == "linear"}
	// an assembled record need not fill every LOCUS field
	switch r.Intn(8) {
	case 0:
		s.Meta.Locus.GenbankDivision, s.Meta.Locus.ModificationDate = "", ""
	case 1:
		s.Meta.Locus.ModificationDate = ""
	case 2:
		s.Meta.Locus.GenbankDivision = ""
	}
	if r.Intn(40) == 0 {
		// ... and the same with any code, on records with or without a division (known finding K3 where the code
		// in the name is listed before the record's division or the record states none)
		s.Meta.Locus.Name = strings.ToLower(gen.RandWordAlnum(r, 1+r.Intn(4))) + gen.AnyDivision(r) + fmt.Sprint(r.Intn(10))
		c03CodeNames++
	} else if later := gen.LaterDivision(r, s.Meta.Locus.GenbankDivision); later != "" && r.Intn(20) == 0 {
		// a construct named after what it carries, with one upper-case word in the name that is also a division
		// code listed after the record's own (tEST1 in SYN, pENV2 in BCT); the rest of the name stays lower case.
		// Only on records that state their division: the LOCUS line of a record without one has no place that
		// tells a code in the name from a code in the division column (section 4 of DESIGN.md).
		s.Meta.Locus.Name = strings.ToLower(gen.RandWordAlnum(r, 1+r.Intn(4))) + later + fmt.Sprint(r.Intn(10))
		c03CodeNames++
	}
	s.Meta.Definition, s.Meta.Accession, s.Meta.Version, s.Meta.Keywords = rec.Definition, rec.Accession, rec.Version, rec.Keywords
	s.Meta.Source, s.Meta.Organism = rec.Source, rec.Organism()
	// optional text fields may be absent from an assembled record
	switch r.Intn(12) {
	case 0:
		s.Meta.Organism = ""
	case 1:
		s.Meta.Definition = ""
	case 2:
		s.Meta.Keywords = ""
	case 3:
		s.Meta.Version = ""
	case 4:
		s.Meta.Accession = ""
	}
	for i, rf := range rec.Refs {
		s.Meta.References = append(s.Meta.References, poly.Reference{Index: fmt.Sprint(i + 1), Range: rf.Range, Authors: rf.Authors, Title: rf.Title, Journal: rf.Journal, PubMed: rf.PubMed, Remark: rf.Remark})
	}
	s.Meta.Other = map[string]string{}
	for _, e := range rec.Extras {
		s.Meta.Other[e.Key] = e.Text
	}
	for _, f := range rec.Features {
		pf := poly.Feature{Type: f.Key, Attributes: map[string]string{}, SequenceLocation: toStruct(f.Loc, r.Intn(2) == 0)}
		if cachedText {
			pf.GbkLocationString = f.Loc.String()
		}
		for _, q := range f.Quals {
			pf.Attributes[q.Key] = q.Value
		}
		// keys that differ only in letter case are distinct keys of the map (a writer that orders keys
		// case-insensitively leaves their order to map iteration)
		if r.Intn(3) == 0 {
			for _, q := range f.Quals {
				if q.Kind == gen.QualText && q.Key != "" {
					pf.Attributes[strings.ToUpper(q.Key[:1])+q.Key[1:]] = gen.RandText(r, 40, 0)
					if r.Intn(2) == 0 {
						pf.Attributes[strings.ToUpper(q.Key)] = gen.RandText(r, 40, 0)
					}
					break
				}
			}
		}
		s.AddFeature(&pf)
	}
	return s
}

// abstractOf describes a poly.Sequence as an abstract record for the independent reader comparison.
func abstractOf(s poly.Sequence) *gen.GBRecord {
	rec := &gen.GBRecord{Name: s.Meta.Locus.Name, MolType: s.Meta.Locus.MoleculeType, Division: s.Meta.Locus.GenbankDivision, Date: s.Meta.Locus.ModificationDate,
		Definition: s.Meta.Definition, Accession: s.Meta.Accession, Version: s.Meta.Version, Keywords: s.Meta.Keywords, Source: s.Meta.Source, OrgName: s.Meta.Organism, Seq: s.Sequence}
	if s.Meta.Locus.Circular {
		rec.Topology = "circular"
	} else if s.Meta.Locus.Linear {
		rec.Topology = "linear"
	}
	for _, rf := range s.Meta.References {
		rec.Refs = append(rec.Refs, gen.GBRef{Range: rf.Range, Authors: rf.Authors, Title: rf.Title, Journal: rf.Journal, PubMed: rf.PubMed, Remark: rf.Remark})
	}
	for k, v := range s.Meta.Other {
		rec.Extras = append(rec.Extras, gen.GBExtra{Key: k, Text: v})
	}
	for _, f := range s.Features {
		gf := gen.GBFeature{Key: f.Type}
		for k, v := range f.Attributes {
			gf.Quals = append(gf.Quals, gen.GBQual{Key: k, Value: v})
		}
		rec.Features = append(rec.Features, gf)
	}
	return rec
}

// compareRoundTrip compares the fields the property names between a record and its re-parsed image.
func compareRoundTrip(x, y poly.Sequence) []string {
	var d []string
	add := func(f, a, b string) {
		if a != b {
			d = append(d, fmt.Sprintf("%s: %q became %q", f, clip(a, 100), clip(b, 100)))
		}
	}
	if x.Sequence != y.Sequence {
		d = append(d, fmt.Sprintf("sequence: %d letters became %d (or letters differ)", len(x.Sequence), len(y.Sequence)))
	}
	a, b := x.Meta.Locus, y.Meta.Locus
	add("locus name", a.Name, b.Name)
	add("locus length", a.SequenceLength, b.SequenceLength)
	add("locus molecule type", a.MoleculeType, b.MoleculeType)
	add("locus division", a.GenbankDivision, b.GenbankDivision)
	add("locus date", a.ModificationDate, b.ModificationDate)
	if a.Circular != b.Circular || a.Linear != b.Linear {
		d = append(d, fmt.Sprintf("topology: circular=%v linear=%v became circular=%v linear=%v", a.Circular, a.Linear, b.Circular, b.Linear))
	}
	add("definition", x.Meta.Definition, y.Meta.Definition)
	add("accession", x.Meta.Accession, y.Meta.Accession)
	add("version", x.Meta.Version, y.Meta.Version)
	add("keywords", x.Meta.Keywords, y.Meta.Keywords)
	add("source", x.Meta.Source, y.Meta.Source)
	add("organism", x.Meta.Organism, y.Meta.Organism)
	if len(x.Meta.References) != len(y.Meta.References) {
		d = append(d, fmt.Sprintf("reference count %d became %d", len(x.Meta.References), len(y.Meta.References)))
	} else {
		for i := range x.Meta.References {
			if x.Meta.References[i] != y.Meta.References[i] {
				d = append(d, fmt.Sprintf("reference %d: %+v became %+v", i+1, x.Meta.References[i], y.Meta.References[i]))
			}
		}
	}
	if len(x.Meta.Other) != len(y.Meta.Other) {
		d = append(d, fmt.Sprintf("extra keyword blocks: %d became %d", len(x.Meta.Other), len(y.Meta.Other)))
	}
	for k, v := range x.Meta.Other {
		if w, ok := y.Meta.Other[k]; !ok || w != v {
			d = append(d, fmt.Sprintf("keyword block %s: %q became %q", k, clip(v, 100), clip(w, 100)))
		}
	}
	if len(x.Features) != len(y.Features) {
		d = append(d, fmt.Sprintf("feature count %d became %d", len(x.Features), len(y.Features)))
		return d
	}
	for i := range x.Features {
		fx, fy := x.Features[i], y.Features[i]
		add(fmt.Sprintf("feature %d key", i), fx.Type, fy.Type)
		if !oracle.SameLeaves(fromStruct(fx.SequenceLocation).Normalize(), fromStruct(fy.SequenceLocation).Normalize()) {
			d = append(d, fmt.Sprintf("feature %d location %s became %s", i, clip(fromStruct(fx.SequenceLocation).String(), 80), clip(fromStruct(fy.SequenceLocation).String(), 80)))
		}
		if len(fx.Attributes) != len(fy.Attributes) {
			d = append(d, fmt.Sprintf("feature %d: %d qualifiers became %d", i, len(fx.Attributes), len(fy.Attributes)))
		}
		for k, v := range fx.Attributes {
			if w, ok := fy.Attributes[k]; !ok || w != v {
				d = append(d, fmt.Sprintf("feature %d qualifier /%s: %q became %q", i, k, clip(v, 80), clip(w, 80)))
			}
		}
	}
	return d
}

// earlier build outputs kept as returned (no copy) together with a copy of their content:
// the text handed out for one record must not change when other records are written later.
var c03Kept [][]byte
var c03KeptCopy []string

func c03Record(w *mon.W, id string, x poly.Sequence, origin string, tmp string, viaFile bool) {
	rep := map[string]any{"origin": origin}
	for i := range c03Kept {
		w.Add("earlier_outputs_rechecked", 1)
		if string(c03Kept[i]) != c03KeptCopy[i] {
			w.Violation(id, "the text returned by an earlier genbank.Build call changed after other records were built (the returned slice is not owned by the caller)", rep)
			c03Kept, c03KeptCopy = nil, nil
			break
		}
	}
	if len(c03Kept) >= 3 {
		c03Kept, c03KeptCopy = c03Kept[1:], c03KeptCopy[1:]
	}
	// the record as it was before any library call saw it: everything written is judged against this copy
	x0 := deepCopy(reflect.ValueOf(x)).Interface().(poly.Sequence)
	for i := range x0.Features {
		x0.Features[i].ParentSequence = &x0
	}
	var first []byte
	var p string
	// determinism: 20 builds
	rich := len(x.Meta.Other) >= 3
	nq := 0
	for _, f := range x.Features {
		if len(f.Attributes) >= 4 {
			nq++
		}
	}
	rich = rich && nq >= 10
	distinct := map[string]bool{}
	for i := 0; i < 20; i++ {
		var out []byte
		if p = mon.Try(func() { out = genbank.Build(x) }); p != "" {
			w.Violation(id, fmt.Sprintf("genbank.Build (%s): %s", origin, p), rep)
			return
		}
		if i == 0 {
			first = out
		}
		distinct[string(out)] = true
		w.Add("builds_compared", 1)
	}
	nontriv := len(x.Meta.References) > 0 || len(x.Meta.Definition) > 68
	for _, f := range x.Features {
		if len(f.Attributes) > 0 {
			nontriv = true
		}
	}
	w.Eval(nontriv, mon.Hash64(string(first)))
	if rich {
		w.Add("determinism_rich_records", 1)
	}
	rep["built"] = clip(string(first), 6000)
	c03Kept, c03KeptCopy = append(c03Kept, first), append(c03KeptCopy, string(first))
	if len(distinct) > 1 {
		w.Violation(id, fmt.Sprintf("genbank.Build wrote %d different texts in 20 calls on the same record (%s; %d features, %d extra keyword blocks)", len(distinct), origin, len(x0.Features), len(x.Meta.Other)), rep)
	}
	// round trip through poly's own parser
	var y poly.Sequence
	if viaFile {
		path := filepath.Join(tmp, "rt.gb")
		if p = mon.Try(func() { genbank.Write(x, path); y = genbank.Read(path) }); p == "" {
			if b, err := os.ReadFile(path); err != nil || !bytes.Equal(b, first) {
				w.Violation(id, "genbank.Write wrote a file that differs from genbank.Build's output", rep)
			}
			w.Add("through_Write_Read", 1)
		}
	} else {
		p = mon.Try(func() { y = genbank.Parse(first) })
	}
	if p != "" {
		w.Violation(id, fmt.Sprintf("parsing the text genbank.Build wrote (%s): %s", origin, p), rep)
	} else {
		w.Add("records_round_tripped", 1)
		d := compareRoundTrip(x0, y)
		// K3: the reader takes as division the first code of the release-notes list that occurs anywhere on the LOCUS
		// line, so a code inside the locus name that is listed before the record's own division (or any code, if the
		// record states none) is reported instead. Exactly that prediction is a known finding; anything else is not.
		if pred := gen.FirstDivisionIn(x0.Meta.Locus.Name, x0.Meta.Locus.GenbankDivision); pred != x0.Meta.Locus.GenbankDivision {
			want := fmt.Sprintf("locus division: %q became %q", x0.Meta.Locus.GenbankDivision, pred)
			for i := range d {
				if d[i] == want {
					d = append(d[:i:i], d[i+1:]...)
					w.Known("division-read-from-name", id, fmt.Sprintf("locus %q with division %q reads back with division %q", x0.Meta.Locus.Name, x0.Meta.Locus.GenbankDivision, pred))
					break
				}
			}
		}
		if len(d) > 0 {
			w.Violation(id, fmt.Sprintf("Parse(Build(x)) != x (%s): %s", origin, joinDiffs(d, 4)), rep)
		}
	}
	// independent reader
	recs, err := gen.ReadGBFile(string(first), false)
	w.Add("independent_reader_comparisons", 1)
	if err != nil || len(recs) != 1 {
		w.Violation(id, fmt.Sprintf("the harness's column-based GenBank reader cannot read genbank.Build's output (%s): %v (%d records)", origin, err, len(recs)), rep)
		return
	}
	want := abstractOf(x0)
	got := recs[0]
	// locations are compared semantically, everything else by DiffGB
	k2 := false
	for i := range got.Features {
		if i >= len(x0.Features) {
			break
		}
		wantLeaves := fromStruct(x0.Features[i].SequenceLocation).Normalize()
		text := got.Features[i].LocText
		lc, e := oracle.ParseLocStrict(text)
		if e != nil {
			fixed := k2Rewrite.ReplaceAllString(text, "$1..>$2")
			if l2, e2 := oracle.ParseLocStrict(fixed); fixed != text && e2 == nil && oracle.SameLeaves(l2.Normalize(), wantLeaves) {
				k2 = true
			} else {
				w.Violation(id, fmt.Sprintf("feature %d: written location %q is not valid INSDC syntax: %v (%s)", i, clip(text, 100), e, origin), rep)
			}
		} else if !oracle.SameLeaves(lc.Normalize(), wantLeaves) {
			w.Violation(id, fmt.Sprintf("feature %d: written location %q denotes something else than %s (%s)", i, clip(text, 100), clip(fromStruct(x0.Features[i].SequenceLocation).String(), 100), origin), rep)
		}
		got.Features[i].LocText, got.Features[i].Loc = "", nil
	}
	if k2 {
		w.Known("three-prime-partial-syntax", id, "a 3'-partial location without cached text is written a..b> (see C02)")
	}
	if d := gen.DiffGB(want, got); d != "" {
		w.Violation(id, fmt.Sprintf("an independent column-based reader does not recover the record from genbank.Build's output (%s): %s", origin, d), rep)
	}
}

func runC03(w *mon.W) {
	n := w.Pick(12000, 300000)
	nBig := w.Pick(10, 200)
	tmp := filepath.Join(w.Dir, fmt.Sprintf("c03-%d", w.Shard))
	os.MkdirAll(tmp, 0755)
	defer os.RemoveAll(tmp)
	for k := 0; k < n+nBig; k++ {
		id := fmt.Sprintf("rec-%d", k)
		if !w.Want(id, k) {
			continue
		}
		r := w.Rand(id)
		sl := c01SeqLen(w, r, k)
		mf, mt := 12, 400
		if r.Intn(5) == 0 {
			mf, mt = 40, 2000
		}
		if k >= n {
			sl = 20000 + r.Intn(80001)
		}
		rec := gen.RandGBRecord(r, sl, mf, mt)
		if r.Intn(12) == 0 {
			// a construct named after the RNA gene it carries ("pT7_mRNA_GFP", "tRNA-Phe_pUC19"): a word that is a
			// molecule type further down GenBank's list than the record's own type
			later := map[string][]string{"DNA": {"mRNA", "tRNA", "rRNA"}, "mRNA": {"tRNA", "rRNA"}, "tRNA": {"rRNA"}}[rec.MolType]
			if len(later) > 0 {
				word := later[r.Intn(len(later))]
				switch r.Intn(3) {
				case 0:
					rec.Name = word + "-" + rec.Name
				case 1:
					rec.Name = rec.Name + "_" + word
				default:
					rec.Name = "p" + rec.Name[:len(rec.Name)/2] + "_" + word + "_" + rec.Name[len(rec.Name)/2:]
				}
				w.Add("locus_names_holding_another_molecule_type_word", 1)
			}
		}
		if r.Intn(5) == 0 && len(rec.Features) > 0 && len(rec.Features) < 40 {
			// gene / mRNA / CDS of one gene share their exon list and differ only in the partial markers (or not at
			// all): the same spans occur twice in one record
			src := rec.Features[r.Intn(len(rec.Features))]
			var clone func(l *oracle.Loc) *oracle.Loc
			clone = func(l *oracle.Loc) *oracle.Loc {
				c := *l
				c.Subs = nil
				for _, sub := range l.Subs {
					c.Subs = append(c.Subs, clone(sub))
				}
				return &c
			}
			twin := gen.GBFeature{Key: []string{"CDS", "mRNA", "gene"}[r.Intn(3)], Loc: clone(src.Loc)}
			for _, leaf := range twin.Loc.Leaves() {
				if leaf.Kind == oracle.LocSpan && r.Intn(2) == 0 {
					leaf.Partial5, leaf.Partial3 = r.Intn(2) == 0, r.Intn(2) == 0
				}
			}
			rec.Features = append(rec.Features, twin)
			w.Add("records_with_two_features_on_the_same_spans", 1)
		}
		mode := k % 3
		if mode == 2 {
			// determinism workload: many features with 4..8 qualifiers, 3..5 keyword blocks
			for len(rec.Features) < 10+r.Intn(6) {
				rec.Features = append(rec.Features, gen.GBFeature{Key: "misc_feature", Loc: gen.RandLocIn(r, 1, sl)})
			}
			for i := range rec.Features {
				used := map[string]bool{}
				for _, q := range rec.Features[i].Quals {
					used[q.Key] = true
				}
				for j := 0; len(rec.Features[i].Quals) < 4+r.Intn(5) && j < 40; j++ {
					key := []string{"gene", "product", "note", "label", "locus_tag", "db_xref", "function", "standard_name", "organism", "mol_type", "allele", "experiment"}[r.Intn(12)]
					if !used[key] {
						used[key] = true
						rec.Features[i].Quals = append(rec.Features[i].Quals, gen.GBQual{Key: key, Value: gen.RandText(r, 60, 0.05), Kind: gen.QualText})
					}
				}
			}
			used := map[string]bool{}
			for _, e := range rec.Extras {
				used[e.Key] = true
			}
			for _, key := range []string{"COMMENT", "DBLINK", "DBSOURCE", "PROJECT", "PRIMARY"} {
				if len(rec.Extras) >= 3+r.Intn(3) {
					break
				}
				if !used[key] {
					rec.Extras = append(rec.Extras, gen.GBExtra{Key: key, Text: gen.RandText(r, 200, 0.05)})
				}
			}
		}
		if mode != 0 && len(rec.Features) > 0 && r.Intn(10) == 0 {
			// a short value that mentions an empty string literal: two quotation marks side by side inside the value
			// (short enough never to be wrapped, never at an end of the value)
			f := &rec.Features[r.Intn(len(rec.Features))]
			has := false
			for _, q := range f.Quals {
				has = has || q.Key == "old_locus_tag"
			}
			if !has {
				f.Quals = append(f.Quals, gen.GBQual{Key: "old_locus_tag", Value: []string{"default is \"\" (empty)", "x\"\"y", "a \"\" b \"\" c"}[r.Intn(3)], Kind: gen.QualText})
				w.Add("structured_records_with_adjacent_quotation_marks_in_a_value", 1)
			}
		}
		var x poly.Sequence
		origin := ""
		w.Begin(id, fmt.Sprintf("mode %d record %s", mode, rec.Name))
		switch mode {
		case 0:
			origin = "image of genbank.Parse over a generated file"
			if r.Intn(8) == 0 {
				// the two-word keyword of older flat files (NCBI before 2004, EMBOSS, Biopython test data): whatever
				// the parser makes of it, writing and reading its image again must reproduce that image
				rec.Extras = append(rec.Extras, gen.GBExtra{Key: "BASE COUNT", Text: fmt.Sprintf("%d a %d c %d g %d t", r.Intn(900), r.Intn(900), r.Intn(900), r.Intn(900))})
				w.Add("files_with_a_BASE_COUNT_line", 1)
			}
			file := gen.WriteGB(rec, gen.RandLayout(r))
			if p := mon.Try(func() {
				buf := []byte(file)
				x = genbank.Parse(buf)
				unchangedThenScribble(w, id, "genbank.Parse", buf, file)
			}); p != "" {
				// C01's subject
				w.Add("parse_panics_skipped", 1)
				w.End()
				continue
			}
		case 1:
			origin = "assembled structure without cached location text"
			cn0 := c03CodeNames
			x = seqFromRecord(rec, r, false)
			w.Add("assembled_records_named_with_a_later_division_code", int64(c03CodeNames-cn0))
		default:
			origin = "assembled structure with cached location text (determinism workload)"
			cn0 := c03CodeNames
			x = seqFromRecord(rec, r, true)
			w.Add("assembled_records_named_with_a_later_division_code", int64(c03CodeNames-cn0))
		}
		c03Record(w, id, x, origin, tmp, k%10 == 0)
		w.End()
		w.Max("max_sequence_length", int64(len(x.Sequence)))
		w.Add("features", int64(len(x.Features)))
		if w.WantSample() && sl < 100 && len(x.Features) > 0 && len(x.Features) < 4 {
			w.Sample(map[string]any{"case": id, "origin": origin, "built_text": strings.Split(string(genbank.Build(x)), "\n")})
		}
	}
}
