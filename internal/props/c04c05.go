package props

import (
	"encoding/hex"
	"fmt"
	"regexp"
	"strings"
	"unicode"

	"github.com/TimothyStiles/poly/seqhash"
	"github.com/TimothyStiles/poly/transform"
	"lukechampine.com/blake3"

	"verif/internal/mon"
	"verif/internal/oracle"
)

const (
	nucAlphabetDoc  = "ATUGCYRSWKMBDHVNZ"          // documented DNA/RNA alphabet of seqhash
	protAlphabetDoc = "ACDEFGHIKLMNPQRSTVWYUO*BXZ" // documented protein alphabet
)

func init() {
	assume := []string{
		"digest primitive lukechampine.com/blake3 (third party, not poly code), self-checked against the published BLAKE3 vectors for \"\" and \"abc\" at start-up",
		"BLAKE3-256 collision resistance beyond the explored set: on the explored set the digest->canonical-form map is checked to be injective",
		"oracle canonical form: upper-case, U->T under RNA, min over all rotations (brute force n<=64, two-pointer scan above) of the strand or of both strands with the harness's own IUPAC complement",
	}
	mon.Register(&mon.Prop{
		ID: "C04", Level: "exploration",
		Rule:        "complete enumeration of ACGT strings (and IUPAC strings to a shorter length) under all four topology/strandedness combinations, each also in lower and mixed case and in RNA spelling, each call compared with the digest of the oracle's canonical form (which is rotation/strand invariant by construction, and every rotation and the reverse complement of every enumerated string is itself enumerated); random long inputs with explicit calls on a random rotation, the reverse complement, a case change and the RNA spelling; non-trivial = length >= 2 with two different letters; distinct by hash of (string, flags)",
		Assumptions: assume, Shards: tierShards(8, 16), WatchdogSec: tierSecs(600, 3600),
		Run: func(w *mon.W) { runSeqhash(w, false) },
	})
	mon.Register(&mon.Prop{
		ID: "C05", Level: "exploration",
		Rule:        "complete enumeration of ACGT strings under the four flag combinations, protein-alphabet strings, every single invalid byte per molecule type, unknown type names and double-stranded proteins; value compared with 'v1_' + tag + '_' + hex(BLAKE3-256(oracle canonical form)); the hash partition is compared with the brute-force orbit partition on a complete small space in one process; non-trivial = length >= 2 with two different letters, or a rejection case; distinct by hash of (string, type, flags)",
		Assumptions: assume, Shards: tierShards(8, 16), WatchdogSec: tierSecs(600, 3600),
		Run: func(w *mon.W) { runSeqhash(w, true) },
	})
}

func blake3SelfCheck(w *mon.W) bool {
	v := func(s string) string { d := blake3.Sum256([]byte(s)); return hex.EncodeToString(d[:]) }
	if v("") != "af1349b9f5f9a1a6a0404dea36dcc9499bcb25c9adc112b7cc9a93cae41f3262" ||
		v("abc") != "6437b3ac38465133ffb63b75273a8db548c558465d79db03fd359c6cd5bd9d85" {
		w.SelfCheckFail("blake3 primitive does not reproduce the published test vectors")
		return false
	}
	return true
}

var seqhashForm = regexp.MustCompile(`^v1_[DRP][CL][DS]_[0-9a-f]{64}$`)

// expectedSeqhash computes the specified value from the oracle's canonical form.
func expectedSeqhash(seq, typ string, circ, ds bool) string {
	u := strings.ToUpper(seq)
	if typ == "RNA" {
		u = strings.ReplaceAll(u, "U", "T")
	}
	var canon string
	if typ == "PROTEIN" {
		canon = u
		if circ {
			canon = oracle.LeastRotation(u)
		}
	} else {
		canon = oracle.Canonical(u, circ, ds)
	}
	d := blake3.Sum256([]byte(canon))
	tag := map[string]string{"DNA": "D", "RNA": "R", "PROTEIN": "P"}[typ]
	if circ {
		tag += "C"
	} else {
		tag += "L"
	}
	if ds {
		tag += "D"
	} else {
		tag += "S"
	}
	return "v1_" + tag + "_" + hex.EncodeToString(d[:])
}

func flagName(circ, ds bool) string {
	return fmt.Sprintf("circular=%v,double=%v", circ, ds)
}

// shJudge calls Hash and compares with the specification; returns the hash.
func shJudge(w *mon.W, caseID, seq, typ string, circ, ds bool, count bool) string {
	var got string
	var err error
	p := mon.Try(func() { got, err = seqhash.Hash(seq, typ, circ, ds) })
	if count {
		w.Eval(len(seq) >= 2 && !allSame(seq), mon.Hash64(seq, typ, flagName(circ, ds)))
	} else {
		w.Add("variant_calls", 1)
	}
	rep := map[string]any{"sequence": seq, "type": typ, "circular": circ, "double": ds}
	if p != "" {
		w.Violation(caseID, fmt.Sprintf("Hash(%q,%s,%s) %s", clip(seq, 80), typ, flagName(circ, ds), p), rep)
		return ""
	}
	if err != nil {
		w.Violation(caseID, fmt.Sprintf("Hash(%q,%s,%s) rejected an accepted input: %v", clip(seq, 80), typ, flagName(circ, ds), err), rep)
		return ""
	}
	retainCheck(w, caseID, "Hash", got, "seqhash.Hash of "+clip(seq, 60))
	want := expectedSeqhash(seq, typ, circ, ds)
	if got != want {
		form := ""
		if !seqhashForm.MatchString(got) {
			form = " (not of the form v1_[DRP][CL][DS]_<64 hex>)"
		}
		w.Violation(caseID, fmt.Sprintf("Hash(%q,%s,%s) = %s, specification gives %s%s", clip(seq, 80), typ, flagName(circ, ds), got, want, form), rep)
	}
	return got
}

func shReject(w *mon.W, caseID, seq, typ string, circ, ds bool, why string) {
	var got string
	var err error
	p := mon.Try(func() { got, err = seqhash.Hash(seq, typ, circ, ds) })
	w.Eval(true, mon.Hash64("reject", seq, typ, flagName(circ, ds)))
	w.Add("rejection_cases", 1)
	rep := map[string]any{"sequence": seq, "type": typ, "circular": circ, "double": ds}
	if p != "" {
		w.Violation(caseID, fmt.Sprintf("Hash(%q,%q,%s) %s instead of an error (%s)", seq, typ, flagName(circ, ds), p, why), rep)
	} else if err == nil {
		w.Violation(caseID, fmt.Sprintf("Hash(%q,%q,%s) = %s: hashed instead of rejected (%s)", seq, typ, flagName(circ, ds), got, why), rep)
	}
}

func runSeqhash(w *mon.W, c05 bool) {
	if !blake3SelfCheck(w) {
		return
	}
	idx := 0
	const blk = 2048
	var parts []string
	type space struct {
		alpha, typ, name string
		maxN             int
	}
	var spaces []space
	if c05 {
		spaces = []space{{"ACGT", "DNA", "ACGT", w.Pick(7, 9)}, {protAlphabetDoc, "PROTEIN", "protein", w.Pick(2, 3)}}
	} else {
		spaces = []space{{"ACGT", "DNA", "ACGT", w.Pick(7, 9)}, {oracle.IUPACCodes, "DNA", "IUPAC", w.Pick(3, 4)}}
	}
	for _, sp := range spaces {
		parts = append(parts, fmt.Sprintf("all %s strings of length 0..%d under every flag combination", sp.name, sp.maxN))
		for n := 0; n <= sp.maxN; n++ {
			total := ipow(len(sp.alpha), n)
			for start := int64(0); start < total; start += blk {
				id := fmt.Sprintf("enum-%s-n%d-b%d", sp.name, n, start/blk)
				idx++
				if !w.Want(id, idx) {
					continue
				}
				end := start + blk
				if end > total {
					end = total
				}
				w.Begin(id, fmt.Sprintf("strings %d..%d of length %d over %s", start, end-1, n, sp.alpha))
				r := w.Rand(id)
				for i := start; i < end; i++ {
					s := nthString(sp.alpha, n, i)
					for f := 0; f < 4; f++ {
						circ, ds := f&1 != 0, f&2 != 0
						if sp.typ == "PROTEIN" {
							if ds {
								if f == 2 || n <= 1 {
									shReject(w, id, s, "PROTEIN", circ, true, "double-stranded protein")
								}
								continue
							}
							shJudge(w, id, s, "PROTEIN", circ, false, true)
							continue
						}
						h := shJudge(w, id, s, "DNA", circ, ds, true)
						if !c05 && h != "" {
							// case and RNA-spelling clauses, explicit calls
							if hl := shJudge(w, id, strings.ToLower(s), "DNA", circ, ds, false); hl != h && hl != "" {
								w.Violation(id, fmt.Sprintf("lower-casing %q changes the seqhash (%s): %s vs %s", s, flagName(circ, ds), h, hl), map[string]any{"sequence": s})
							}
							if hm := shJudge(w, id, randCase(r, s, 0.5), "DNA", circ, ds, false); hm != h && hm != "" {
								w.Violation(id, fmt.Sprintf("mixed case of %q changes the seqhash (%s)", s, flagName(circ, ds)), map[string]any{"sequence": s})
							}
							rna := strings.ReplaceAll(s, "T", "U")
							hr := shJudge(w, id, rna, "RNA", circ, ds, false)
							if hrl := shJudge(w, id, strings.ToLower(rna), "RNA", circ, ds, false); hrl != hr && hrl != "" && hr != "" {
								w.Violation(id, fmt.Sprintf("lower-casing the RNA spelling %q changes the seqhash (%s): %s vs %s", rna, flagName(circ, ds), hr, hrl), map[string]any{"sequence": rna})
							}
							if hr != "" && (len(hr) != len(h) || hr[:3] != h[:3] || hr[3] != 'R' || hr[4:] != h[4:]) {
								w.Violation(id, fmt.Sprintf("RNA spelling %q and DNA spelling %q differ in more than the type letter (%s): %s vs %s", rna, s, flagName(circ, ds), hr, h), map[string]any{"sequence": s})
							}
						}
					}
				}
				w.End()
				w.Add("enumerated_strings", end-start)
			}
		}
	}
	w.Extra("exhaustive_parts", parts)

	if c05 {
		// partition check in one process on a complete small space
		id := "partition"
		idx++
		if w.Want(id, idx) {
			maxN := w.Pick(6, 8)
			w.Begin(id, fmt.Sprintf("hash partition vs orbit partition, all ACGT strings of length 1..%d", maxN))
			for f := 0; f < 4; f++ {
				circ, ds := f&1 != 0, f&2 != 0
				h2c := map[string]string{}
				c2h := map[string]string{}
				for n := 1; n <= maxN; n++ {
					total := ipow(4, n)
					for i := int64(0); i < total; i++ {
						s := nthString("ACGT", n, i)
						h, err := seqhash.Hash(s, "DNA", circ, ds)
						if err != nil {
							continue // reported by the enumeration above
						}
						canon := oracle.Canonical(s, circ, ds)
						w.Add("partition_members", 1)
						if c, ok := h2c[h]; ok && c != canon {
							w.Violation(id, fmt.Sprintf("%s: %q (orbit representative %q) receives the same seqhash %s as the different molecule %q", flagName(circ, ds), s, canon, h, c), map[string]any{"sequence": s, "circular": circ, "double": ds})
						}
						h2c[h] = canon
						if hh, ok := c2h[canon]; ok && hh != h {
							w.Violation(id, fmt.Sprintf("%s: %q denotes the same molecule as an earlier input (representative %q) but hashes differently: %s vs %s", flagName(circ, ds), s, canon, h, hh), map[string]any{"sequence": s, "circular": circ, "double": ds})
						}
						c2h[canon] = h
					}
				}
				w.Add("partition_classes", int64(len(c2h)))
				if len(h2c) != len(c2h) {
					w.Violation(id, fmt.Sprintf("%s: %d hash classes vs %d orbit classes", flagName(circ, ds), len(h2c), len(c2h)), nil)
				}
			}
			w.Eval(true, mon.Hash64("partition"))
			w.End()
		}
		// rejection: every single invalid byte per type
		for _, typ := range []string{"DNA", "RNA", "PROTEIN"} {
			alpha := nucAlphabetDoc
			if typ == "PROTEIN" {
				alpha = protAlphabetDoc
			}
			for b := 0; b < 256; b++ {
				id := fmt.Sprintf("invalid-%s-%d", typ, b)
				idx++
				if !w.Want(id, idx) {
					continue
				}
				c := byte(b)
				valid := strings.IndexByte(alpha, upperASCII(c)) >= 0
				w.Begin(id, string([]byte{c}))
				for _, seq := range []string{string([]byte{c}), "AC" + string([]byte{c}) + "GA"} {
					for _, circ := range []bool{false, true} {
						if valid {
							// accepted letters: single-stranded only (strand clause is limited to the complementable codes)
							shJudge(w, id, seq, typ, circ, false, true)
							w.Add("accepted_single_letters", 1)
						} else {
							shReject(w, id, seq, typ, circ, false, fmt.Sprintf("byte 0x%02x is outside the %s alphabet", c, typ))
						}
					}
				}
				w.End()
			}
		}
		// letters that take more than one byte are outside every alphabet too (left out: the few whose Unicode
		// upper-case form is an ASCII letter, e.g. dotless i and long s, which upper-casing turns into valid letters)
		for _, typ := range []string{"DNA", "RNA", "PROTEIN"} {
			var runes []rune
			for c := rune(0x100); c < 0x250; c++ {
				runes = append(runes, c)
			}
			runes = append(runes, 0x391, 0x3b1, 0x410, 0x430, 0x212a, 0x212b, 0xff21, 0xff41, 0x1d400, 0x1f9ec, 0xfffd)
			for _, c := range runes {
				if unicode.ToUpper(c) < 0x80 || unicode.ToLower(c) < 0x80 {
					continue
				}
				id := fmt.Sprintf("invalid-%s-U+%04X", typ, c)
				idx++
				if !w.Want(id, idx) {
					continue
				}
				w.Begin(id, string(c))
				for _, seq := range []string{string(c), "AC" + string(c) + "GA"} {
					shReject(w, id, seq, typ, c%2 == 0, false, fmt.Sprintf("letter U+%04X is outside the %s alphabet", c, typ))
				}
				w.Add("multi_byte_letters_rejected", 1)
				w.End()
			}
		}
		for i, typ := range []string{"", "dna", "rna", "protein", "Protein", "DNA ", "AA", "PROTEINS", "D", "cDNA", "mRNA"} {
			id := fmt.Sprintf("badtype-%d", i)
			idx++
			if !w.Want(id, idx) {
				continue
			}
			w.Begin(id, typ)
			for f := 0; f < 4; f++ {
				shReject(w, id, "ACGT", typ, f&1 != 0, f&2 != 0, "unknown molecule type")
			}
			w.End()
		}
	}

	// random longer inputs with explicit variant calls
	nRand := w.Pick(6000, 40000)
	maxLen := w.Pick(10000, 100000)
	for i := 0; i < nRand; i++ {
		id := fmt.Sprintf("rand-%d", i)
		idx++
		if !w.Want(id, idx) {
			continue
		}
		r := w.Rand(id)
		var n int
		switch r.Intn(4) {
		case 0:
			n = 1 + r.Intn(40)
		case 1:
			n = 1 + r.Intn(1000)
		default:
			n = 1 + r.Intn(maxLen)
		}
		if !w.Quick() && i%50 != 0 && n > 20000 {
			n = 1 + r.Intn(20000)
		}
		if w.Quick() && i%100 == 99 {
			// the quick tier also reaches the upper end of the scope (plasmid- to BAC-sized molecules)
			n = []int{32768, 65536, 30000 + r.Intn(70001)}[r.Intn(3)]
		}
		alpha := "ACGT"
		if r.Intn(3) == 0 {
			alpha = oracle.IUPACCodes
		}
		var s string
		switch r.Intn(6) {
		case 5:
			if r.Intn(2) == 0 {
				// arms that are reverse complements of each other around one central base (operators, snap-back templates),
				// arm lengths at and next to the multiples of 32 and 64
				arm := []int{31, 32, 33, 63, 64, 65, 127, 128, 129, 191, 192, 256, 1 + r.Intn(300)}[r.Intn(13)]
				x := randString(r, alpha, arm)
				s = x + randString(r, "ACGT", 1) + oracle.MustRevComp(x)
				w.Add("reverse_complementary_arms_around_one_base", 1)
			} else {
				// a homopolymer ring with one interrupting letter (a poly-A mini-circle with a marker), 2..400 letters,
				// written so that the interrupter stands at, or next to, either end of the text
				n2 := 2 + r.Intn(399)
				if r.Intn(2) == 0 {
					n2 = 90 + r.Intn(40)
				}
				pair := []string{"AC", "AT", "CG", "CA", "TA", "GT"}[r.Intn(6)]
				b := []byte(strings.Repeat(pair[:1], n2))
				pos := []int{n2 - 1, n2 - 2, n2 - 3, 0, 1, 2, r.Intn(n2)}[r.Intn(7)]
				if pos < 0 {
					pos = 0
				}
				if pos >= n2 {
					pos = n2 - 1
				}
				b[pos] = pair[1]
				s = string(b)
				w.Add("interrupted_homopolymer_rings", 1)
			}
		case 4:
			// an element that holds the least rotation's start (it begins with a run of A) occurs twice on the
			// molecule, in the same or in opposite orientation, with different neighbours (insertion sequences,
			// composite transposons, dual cassettes): the canonical start is decided far into the sequence
			el := strings.Repeat("A", 4+r.Intn(12)) + randString(r, alpha, []int{30, 300, 600, 1100, 3000}[r.Intn(5)]+r.Intn(40))
			second := el
			if r.Intn(2) == 0 {
				second = oracle.MustRevComp(el)
			}
			bg := strings.ReplaceAll(alpha, "A", "")
			s = el + randString(r, bg, 1+r.Intn(300)) + second + randString(r, bg, 1+r.Intn(300))
			if r.Intn(2) == 0 {
				s = rotate(s, r.Intn(len(s)))
			}
			w.Add("inputs_with_an_element_occurring_twice", 1)
		case 0: // periodic: many equal rotations
			u := randString(r, alpha, 1+r.Intn(9))
			s = strings.Repeat(u, n/len(u)+1)[:n]
		case 1: // reverse-complement palindrome
			h := randString(r, alpha, n/2+1)
			s = h + oracle.MustRevComp(h)
			if r.Intn(2) == 0 {
				// inverted terminal repeat around a payload: the two strands share a long prefix without being equal
				x := randString(r, alpha, 1+r.Intn(200))
				s = x + randString(r, alpha, 1+r.Intn(100)) + oracle.MustRevComp(x)
				w.Add("inverted_terminal_repeat_inputs", 1)
			}
		default:
			s = randString(r, alpha, n)
		}
		s = randCase(r, s, []float64{0, 0.5, 1}[r.Intn(3)])
		if r.Intn(6) == 0 {
			s = caseEdges(r, s)
		}
		w.Max("max_length", int64(len(s)))
		w.Begin(id, s)
		for f := 0; f < 4; f++ {
			circ, ds := f&1 != 0, f&2 != 0
			h := shJudge(w, id, s, "DNA", circ, ds, true)
			if h == "" {
				continue
			}
			if circ {
				k := r.Intn(len(s))
				if hk := shJudge(w, id, rotate(s, k), "DNA", circ, ds, false); hk != h && hk != "" {
					w.Violation(id, fmt.Sprintf("rotation by %d changes the circular seqhash of %q (%s)", k, clip(s, 60), flagName(circ, ds)), map[string]any{"sequence": s, "rotation": k})
				}
				w.Add("explicit_rotation_calls", 1)
			}
			if ds {
				rc := oracle.MustRevComp(s)
				if circ {
					rc = rotate(rc, r.Intn(len(rc)))
				}
				if hc := shJudge(w, id, rc, "DNA", circ, ds, false); hc != h && hc != "" {
					w.Violation(id, fmt.Sprintf("the reverse complement of %q hashes differently as a double-stranded molecule (%s)", clip(s, 60), flagName(circ, ds)), map[string]any{"sequence": s})
				}
				w.Add("explicit_reverse_complement_calls", 1)
				// the same through the library's own reverse complement (what a user would pass in); the
				// string must also still be that reverse complement after Hash has run
				var lib string
				if mon.Try(func() { lib = transform.ReverseComplement(s) }) == "" && len(lib) == len(s) {
					want := oracle.MustRevComp(s)
					if hl := shJudge(w, id, lib, "DNA", circ, ds, false); hl != h && hl != "" && lib == want {
						w.Violation(id, fmt.Sprintf("transform.ReverseComplement(%q) hashes differently from the sequence itself as a double-stranded molecule (%s)", clip(s, 60), flagName(circ, ds)), map[string]any{"sequence": s})
					}
					if lib != want {
						w.Violation(id, fmt.Sprintf("the string transform.ReverseComplement(%q) returned reads %q after seqhash.Hash was called on it; the reverse complement is %q", clip(s, 60), clip(lib, 60), clip(want, 60)), map[string]any{"sequence": s})
					}
					w.Add("library_reverse_complement_calls", 1)
				}
			}
			if hc := shJudge(w, id, randCase(r, strings.ToUpper(s), 0.5), "DNA", circ, ds, false); hc != h && hc != "" {
				w.Violation(id, fmt.Sprintf("case change alters the seqhash of %q (%s)", clip(s, 60), flagName(circ, ds)), map[string]any{"sequence": s})
			}
			rna := strings.NewReplacer("T", "U", "t", "u").Replace(s)
			if hr := shJudge(w, id, rna, "RNA", circ, ds, false); hr != "" && (hr[:3] != h[:3] || hr[3] != 'R' || hr[4:] != h[4:]) {
				w.Violation(id, fmt.Sprintf("RNA spelling of %q differs from the DNA spelling in more than the type letter (%s)", clip(s, 60), flagName(circ, ds)), map[string]any{"sequence": s})
			} else if ds && hr != "" {
				// the other strand of the RNA spelling, as the library's own ReverseComplement writes it
				var lib string
				if mon.Try(func() { lib = transform.ReverseComplement(rna) }) == "" && len(lib) == len(rna) {
					if hl := shJudge(w, id, lib, "RNA", circ, ds, false); hl != hr && hl != "" {
						w.Violation(id, fmt.Sprintf("transform.ReverseComplement(%q) = %q hashes differently under type RNA from the sequence itself as a double-stranded molecule (%s)", clip(rna, 60), clip(lib, 60), flagName(circ, ds)), map[string]any{"sequence": rna})
					}
					w.Add("library_reverse_complement_calls_on_rna_spelling", 1)
				}
			}
		}
		w.End()
		if w.WantSample() && len(s) < 50 && len(s) > 5 {
			w.Sample(map[string]any{"case": id, "sequence": s, "expected_circular_double": expectedSeqhash(s, "DNA", true, true), "canonical_circular_double": oracle.Canonical(strings.ToUpper(s), true, true)})
		}
	}
}

func upperASCII(c byte) byte {
	if c >= 'a' && c <= 'z' {
		return c - 32
	}
	return c
}
