package props

import (
	"fmt"
	"sort"
	"strings"

	"github.com/TimothyStiles/poly/transform/codon"

	"verif/internal/mon"
	"verif/internal/oracle"
)

func init() {
	mon.Register(&mon.Prop{
		ID: "C06", Level: "exploration",
		Rule:        "table clause: all 25 table ids x all 64 codons x {upper, lower, every mixed casing} plus start/stop lists, complete; string clause: per table, random A/C/G/T strings of length 1..3000 in random case, each split at every codon boundary and with 1-2 trailing bases; non-trivial = every (table,codon) pair and every string of >= 2 codons; distinct by hash of (table, input)",
		Assumptions: []string{"oracle: NCBI genetic codes transcribed as standard code + per-table differences + explicit initiation/termination lists (termination list = '*' marks of NCBI's sncbieaa line), independent of poly's 64-letter strings"},
		Shards:      tierShards(16, 16), WatchdogSec: tierSecs(600, 3600),
		Run: runC06,
	})
}

func sortedCopy(a []string) []string {
	b := append([]string(nil), a...)
	sort.Strings(b)
	return b
}

func hasDup(a []string) bool {
	m := map[string]bool{}
	for _, x := range a {
		if m[x] {
			return true
		}
		m[x] = true
	}
	return false
}

func runC06(w *mon.W) {
	idx := 0
	for _, g := range oracle.GeneticCodes {
		g := g
		id := fmt.Sprintf("table-%d", g.ID)
		idx++
		if w.Want(id, idx) {
			w.Begin(id, fmt.Sprintf("NCBI table %d: 64 codons x 8 casings, start and stop lists", g.ID))
			var tbl codon.Table
			if p := mon.Try(func() { tbl = codon.GetCodonTable(g.ID) }); p != "" {
				w.Violation(id, "GetCodonTable: "+p, nil)
				w.End()
				continue
			}
			if len(tbl.AminoAcids) == 0 {
				w.Violation(id, fmt.Sprintf("GetCodonTable(%d) returned an empty table", g.ID), nil)
				w.End()
				continue
			}
			for _, c := range oracle.AllCodons() {
				want := g.AminoAcid(c)
				for mask := 0; mask < 8; mask++ {
					b := []byte(c)
					for j := 0; j < 3; j++ {
						if mask&(1<<uint(j)) != 0 {
							b[j] += 32
						}
					}
					in := string(b)
					var got string
					var err error
					p := mon.Try(func() { got, err = codon.Translate(in, tbl) })
					w.Eval(true, mon.Hash64(id, in))
					if p != "" || err != nil {
						w.Violation(id, fmt.Sprintf("Translate(%q, table %d): %s %v", in, g.ID, p, err), map[string]any{"table": g.ID, "codon": in})
					} else if got != want {
						w.Violation(id, fmt.Sprintf("table %d: codon %s translates to %q, NCBI assigns %q", g.ID, in, got, want), map[string]any{"table": g.ID, "codon": in})
					}
				}
				w.Add("codon_table_entries_checked", 1)
			}
			for _, l := range []struct {
				name      string
				got, want []string
			}{{"start", tbl.StartCodons, g.Starts}, {"stop", tbl.StopCodons, g.Stops}} {
				w.Eval(true, mon.Hash64(id, l.name))
				w.Add("codon_lists_checked", 1)
				if hasDup(l.got) {
					w.Violation(id, fmt.Sprintf("table %d: %s codon list %v contains duplicates", g.ID, l.name, l.got), nil)
				}
				if strings.Join(sortedCopy(l.got), ",") != strings.Join(sortedCopy(l.want), ",") {
					w.Violation(id, fmt.Sprintf("table %d: %s codons are %v, NCBI lists %v", g.ID, l.name, sortedCopy(l.got), sortedCopy(l.want)), map[string]any{"table": g.ID})
				}
			}
			w.End()
			if w.WantSample() {
				w.Sample(map[string]any{"table": g.ID, "name": g.Name, "differences_from_standard": g.Diff, "starts": g.Starts, "stops": g.Stops})
			}
		}
		// string clause
		nStr := w.Pick(200, 2000)
		for i := 0; i < nStr; i++ {
			sid := fmt.Sprintf("str-%d-%d", g.ID, i)
			idx++
			if !w.Want(sid, idx) {
				continue
			}
			r := w.Rand(sid)
			var n int
			switch r.Intn(3) {
			case 0:
				n = 1 + r.Intn(12)
			case 1:
				n = 1 + r.Intn(300)
			default:
				n = 1 + r.Intn(3000)
			}
			s := randCase(r, randString(r, "ACGT", n), []float64{0, 0.5, 1}[r.Intn(3)])
			if r.Intn(4) == 0 {
				s = randCaseBlocks(r, strings.ToUpper(s), 90) // soft-masked stretches instead of letter-by-letter case
				w.Add("strings_with_case_blocks", 1)
			}
			if r.Intn(12) == 0 {
				n = 3000 // the largest length of the scope, a whole number of codons
				s = randCase(r, randString(r, "ACGT", n), []float64{0, 0.5, 1}[r.Intn(3)])
			}
			tbl := codon.GetCodonTable(g.ID)
			w.Begin(sid, s)
			var got string
			var err error
			p := mon.Try(func() { got, err = codon.Translate(s, tbl) })
			retainCheck(w, sid, "Translate", got, fmt.Sprintf("codon.Translate of %d letters with table %d", len(s), g.ID))
			w.Eval(n >= 6, mon.Hash64(fmt.Sprint(g.ID), s))
			want := g.Translate(s)
			rep := map[string]any{"table": g.ID, "dna": s}
			if p != "" || err != nil {
				w.Violation(sid, fmt.Sprintf("Translate(%q, table %d): %s %v", clip(s, 60), g.ID, p, err), rep)
				w.End()
				continue
			}
			if got != want {
				w.Violation(sid, fmt.Sprintf("table %d: Translate(%q) = %q, codon-by-codon NCBI translation is %q", g.ID, clip(s, 60), clip(got, 60), clip(want, 60)), rep)
				w.End()
				continue
			}
			if len(got) != n/3 {
				w.Violation(sid, fmt.Sprintf("table %d: %d bases gave %d residues, want %d (one per complete codon)", g.ID, n, len(got), n/3), rep)
			}
			// every codon-boundary split
			nsplit := 0
			for k := 3; k < n; k += 3 {
				a, b := s[:k], s[k:]
				ta, _ := codon.Translate(a, tbl)
				tb, _ := codon.Translate(b, tbl)
				nsplit++
				if ta+tb != got {
					w.Violation(sid, fmt.Sprintf("table %d: translation of a concatenation at codon boundary %d differs from the concatenation of translations", g.ID, k), rep)
					break
				}
			}
			w.Add("codon_boundary_splits_checked", int64(nsplit))
			// trailing partial codon ignored
			full := s[:n-n%3]
			if len(full) > 0 && n%3 != 0 {
				tf, _ := codon.Translate(full, tbl)
				w.Add("partial_codon_cases", 1)
				if tf != got {
					w.Violation(sid, fmt.Sprintf("table %d: a trailing partial codon changes the translation of %q", g.ID, clip(s, 60)), rep)
				}
			}
			// case irrelevant
			tu, _ := codon.Translate(strings.ToUpper(s), tbl)
			tl, _ := codon.Translate(strings.ToLower(s), tbl)
			if tu != got || tl != got {
				w.Violation(sid, fmt.Sprintf("table %d: letter case changes the translation of %q", g.ID, clip(s, 60)), rep)
			}
			w.End()
		}
	}
	w.Extra("exhaustive_parts", []string{"25 table ids x 64 codons x 8 casings", "start and stop codon lists of all 25 tables"})
}
