package props

import (
	"encoding/json"
	"fmt"
	"os"
	"path/filepath"
	"sort"
	"strings"

	"github.com/TimothyStiles/poly/transform/codon"

	"verif/internal/mon"
	"verif/internal/oracle"
)

func init() {
	mon.Register(&mon.Prop{
		ID: "C06", Level: "exploration",
		Rule:        "table clause: all 25 table ids x all 64 codons x {upper, lower, every mixed casing} plus start/stop lists, complete; string clause: per table, random A/C/G/T strings of length 1..3000 in random case, gene-like strings (a start codon of the table, sense codons, a stop codon) and strings with tandem runs of one codon or base, each split at every codon boundary and with 1-2 trailing bases; non-trivial = every (table,codon) pair and every string of >= 2 codons; distinct by hash of (table, input)",
		Assumptions: []string{"oracle: NCBI genetic codes transcribed as standard code + per-table differences + explicit initiation/termination lists (termination list = '*' marks of NCBI's sncbieaa line), independent of poly's 64-letter strings"},
		Shards:      tierShards(16, 16), WatchdogSec: tierSecs(600, 3600),
		Run: runC06,
	})
}

func sortedCopy(a []string) []string {
	b := append([]string(nil), a...)
	sort.Strings(b)
	return b
}

func hasDup(a []string) bool {
	m := map[string]bool{}
	for _, x := range a {
		if m[x] {
			return true
		}
		m[x] = true
	}
	return false
}

func runC06(w *mon.W) {
	idx := 0
	for _, g := range oracle.GeneticCodes {
		g := g
		id := fmt.Sprintf("table-%d", g.ID)
		idx++
		if w.Want(id, idx) {
			w.Begin(id, fmt.Sprintf("NCBI table %d: 64 codons x 8 casings, start and stop lists", g.ID))
			var tbl codon.Table
			if p := mon.Try(func() { tbl = codon.GetCodonTable(g.ID) }); p != "" {
				w.Violation(id, "GetCodonTable: "+p, nil)
				w.End()
				continue
			}
			if len(tbl.AminoAcids) == 0 {
				w.Violation(id, fmt.Sprintf("GetCodonTable(%d) returned an empty table", g.ID), nil)
				w.End()
				continue
			}
			for _, c := range oracle.AllCodons() {
				want := g.AminoAcid(c)
				for mask := 0; mask < 8; mask++ {
					b := []byte(c)
					for j := 0; j < 3; j++ {
						if mask&(1<<uint(j)) != 0 {
							b[j] += 32
						}
					}
					in := string(b)
					var got string
					var err error
					p := mon.Try(func() { got, err = codon.Translate(in, tbl) })
					w.Eval(true, mon.Hash64(id, in))
					if p != "" || err != nil {
						w.Violation(id, fmt.Sprintf("Translate(%q, table %d): %s %v", in, g.ID, p, err), map[string]any{"table": g.ID, "codon": in})
					} else if got != want {
						w.Violation(id, fmt.Sprintf("table %d: codon %s translates to %q, NCBI assigns %q", g.ID, in, got, want), map[string]any{"table": g.ID, "codon": in})
					}
				}
				w.Add("codon_table_entries_checked", 1)
			}
			for _, l := range []struct {
				name      string
				got, want []string
			}{{"start", tbl.StartCodons, g.Starts}, {"stop", tbl.StopCodons, g.Stops}} {
				w.Eval(true, mon.Hash64(id, l.name))
				w.Add("codon_lists_checked", 1)
				if hasDup(l.got) {
					w.Violation(id, fmt.Sprintf("table %d: %s codon list %v contains duplicates", g.ID, l.name, l.got), nil)
				}
				if strings.Join(sortedCopy(l.got), ",") != strings.Join(sortedCopy(l.want), ",") {
					w.Violation(id, fmt.Sprintf("table %d: %s codons are %v, NCBI lists %v", g.ID, l.name, sortedCopy(l.got), sortedCopy(l.want)), map[string]any{"table": g.ID})
				}
			}
			w.End()
			if w.WantSample() {
				w.Sample(map[string]any{"table": g.ID, "name": g.Name, "differences_from_standard": g.Diff, "starts": g.Starts, "stops": g.Stops})
			}
		}
		// string clause
		nStr := w.Pick(200, 2000)
		for i := 0; i < nStr; i++ {
			sid := fmt.Sprintf("str-%d-%d", g.ID, i)
			idx++
			if !w.Want(sid, idx) {
				continue
			}
			r := w.Rand(sid)
			var n int
			switch r.Intn(3) {
			case 0:
				n = 1 + r.Intn(12)
			case 1:
				n = 1 + r.Intn(300)
			default:
				n = 1 + r.Intn(3000)
			}
			s := randCase(r, randString(r, "ACGT", n), []float64{0, 0.5, 1}[r.Intn(3)])
			if r.Intn(4) == 0 {
				s = randCaseBlocks(r, strings.ToUpper(s), 90) // soft-masked stretches instead of letter-by-letter case
				w.Add("strings_with_case_blocks", 1)
			}
			if r.Intn(12) == 0 {
				n = 3000 // the largest length of the scope, a whole number of codons
				s = randCase(r, randString(r, "ACGT", n), []float64{0, 0.5, 1}[r.Intn(3)])
			}
			switch i % 8 {
			case 5:
				// a gene as it is annotated: one of the table's start codons (also the alternative ones), sense codons
				// only, one of its stop codons; 2..1000 codons, now and then followed by one or two more bases
				var sense []string
				for _, c := range oracle.AllCodons() {
					if g.AminoAcid(c) != "*" {
						sense = append(sense, c)
					}
				}
				var sb strings.Builder
				sb.WriteString(g.Starts[r.Intn(len(g.Starts))])
				for k := []int{r.Intn(40), 148 + r.Intn(6), r.Intn(999)}[r.Intn(3)]; k > 0; k-- {
					sb.WriteString(sense[r.Intn(len(sense))])
				}
				if len(g.Stops) > 0 {
					sb.WriteString(g.Stops[r.Intn(len(g.Stops))])
				}
				sb.WriteString([]string{"", "", "A", "TG"}[r.Intn(4)])
				s = randCase(r, sb.String(), []float64{0, 0, 1, 0.5}[r.Intn(4)])
				n = len(s)
				w.Add("gene_like_strings", 1)
			case 6:
				// tandem runs: one codon (or one base) repeated 2..40 times between random stretches, ending anywhere
				var sb strings.Builder
				sb.WriteString(randString(r, "ACGT", 3*r.Intn(4)+r.Intn(3)*(r.Intn(2))))
				for k := 1 + r.Intn(3); k > 0; k-- {
					unit := randString(r, "ACGT", []int{3, 3, 1, 6}[r.Intn(4)])
					sb.WriteString(strings.Repeat(unit, 2+r.Intn(39)))
					sb.WriteString(unit[:r.Intn(len(unit))])
					sb.WriteString(randString(r, "ACGT", r.Intn(7)))
				}
				s = randCase(r, sb.String(), []float64{0, 1, 0.5}[r.Intn(3)])
				n = len(s)
				w.Add("strings_with_tandem_runs", 1)
			}
			if i%8 == 2 || (i%8 >= 5 && r.Intn(3) == 0) {
				s = caseEdges(r, s)
				w.Add("strings_in_cloning_notation", 1)
			}
			tbl := codon.GetCodonTable(g.ID)
			w.Begin(sid, s)
			var got string
			var err error
			p := mon.Try(func() { got, err = codon.Translate(s, tbl) })
			retainCheck(w, sid, "Translate", got, fmt.Sprintf("codon.Translate of %d letters with table %d", len(s), g.ID))
			w.Eval(n >= 6, mon.Hash64(fmt.Sprint(g.ID), s))
			want := g.Translate(s)
			rep := map[string]any{"table": g.ID, "dna": s}
			if p != "" || err != nil {
				w.Violation(sid, fmt.Sprintf("Translate(%q, table %d): %s %v", clip(s, 60), g.ID, p, err), rep)
				w.End()
				continue
			}
			if got != want {
				w.Violation(sid, fmt.Sprintf("table %d: Translate(%q) = %q, codon-by-codon NCBI translation is %q", g.ID, clip(s, 60), clip(got, 60), clip(want, 60)), rep)
				w.End()
				continue
			}
			if len(got) != n/3 {
				w.Violation(sid, fmt.Sprintf("table %d: %d bases gave %d residues, want %d (one per complete codon)", g.ID, n, len(got), n/3), rep)
			}
			// every codon-boundary split
			nsplit := 0
			for k := 3; k < n; k += 3 {
				a, b := s[:k], s[k:]
				ta, _ := codon.Translate(a, tbl)
				tb, _ := codon.Translate(b, tbl)
				nsplit++
				if ta+tb != got {
					w.Violation(sid, fmt.Sprintf("table %d: translation of a concatenation at codon boundary %d differs from the concatenation of translations", g.ID, k), rep)
					break
				}
			}
			w.Add("codon_boundary_splits_checked", int64(nsplit))
			// trailing partial codon ignored
			full := s[:n-n%3]
			if len(full) > 0 && n%3 != 0 {
				tf, _ := codon.Translate(full, tbl)
				w.Add("partial_codon_cases", 1)
				if tf != got {
					w.Violation(sid, fmt.Sprintf("table %d: a trailing partial codon changes the translation of %q", g.ID, clip(s, 60)), rep)
				}
			}
			// case irrelevant
			tu, _ := codon.Translate(strings.ToUpper(s), tbl)
			tl, _ := codon.Translate(strings.ToLower(s), tbl)
			if tu != got || tl != got {
				w.Violation(sid, fmt.Sprintf("table %d: letter case changes the translation of %q", g.ID, clip(s, 60)), rep)
			}
			w.End()
		}
	}
	c06Carriers(w, &idx)
	c06Histories(w, &idx)
	w.Extra("exhaustive_parts", []string{"25 table ids x 64 codons x 8 casings", "start and stop codon lists of all 25 tables", "25 table ids x 64 codons after the table went through the library's JSON writer and reader"})
}

// c06VerifyTable checks the 64 upper-case codons and both lists of one table value against NCBI.
func c06VerifyTable(w *mon.W, id string, g *oracle.GeneticCode, tbl codon.Table, how string) bool {
	ok := true
	for _, c := range oracle.AllCodons() {
		var got string
		var err error
		p := mon.Try(func() { got, err = codon.Translate(c, tbl) })
		if p != "" || err != nil || got != g.AminoAcid(c) {
			w.Violation(id, fmt.Sprintf("table %d %s: codon %s translates to %q (%s %v), NCBI assigns %q", g.ID, how, c, got, p, err, g.AminoAcid(c)), map[string]any{"table": g.ID, "codon": c})
			ok = false
			break
		}
	}
	for _, l := range []struct {
		name      string
		got, want []string
	}{{"start", tbl.StartCodons, g.Starts}, {"stop", tbl.StopCodons, g.Stops}} {
		if hasDup(l.got) || strings.Join(sortedCopy(l.got), ",") != strings.Join(sortedCopy(l.want), ",") {
			w.Violation(id, fmt.Sprintf("table %d %s: %s codons are %v, NCBI lists %v", g.ID, how, l.name, l.got, sortedCopy(l.want)), map[string]any{"table": g.ID})
			ok = false
		}
	}
	return ok
}

// c06Carriers: the table a user translates with may have been stored with the library's own JSON writer
// and loaded again; it is still one of the 25 tables the library offers.
func c06Carriers(w *mon.W, idx *int) {
	tmp := filepath.Join(w.Dir, fmt.Sprintf("c06-%d", w.Shard))
	os.MkdirAll(tmp, 0755)
	defer os.RemoveAll(tmp)
	for gi := range oracle.GeneticCodes {
		g := &oracle.GeneticCodes[gi]
		id := fmt.Sprintf("json-%d", g.ID)
		*idx++
		if !w.Want(id, *idx) {
			continue
		}
		w.Begin(id, fmt.Sprintf("NCBI table %d through WriteCodonJSON/ReadCodonJSON and Marshal/ParseCodonJSON", g.ID))
		var viaFile, viaBytes codon.Table
		path := filepath.Join(tmp, "t.json")
		p := mon.Try(func() {
			codon.WriteCodonJSON(codon.GetCodonTable(g.ID), path)
			viaFile = codon.ReadCodonJSON(path)
			b, _ := json.Marshal(codon.GetCodonTable(g.ID))
			viaBytes = codon.ParseCodonJSON(b)
		})
		w.Eval(true, mon.Hash64(id))
		if p != "" {
			w.Violation(id, "JSON round trip of a library table: "+p, nil)
		} else {
			c06VerifyTable(w, id, g, viaFile, "after WriteCodonJSON and ReadCodonJSON")
			c06VerifyTable(w, id, g, viaBytes, "after json.Marshal and ParseCodonJSON")
			w.Add("tables_checked_after_json_round_trip", 2)
		}
		w.End()
	}
}

// c06Histories: other operations of the package run on tables obtained from GetCodonTable; afterwards
// every table the library offers is requested again and must still be NCBI's (letters and both lists;
// the weights are not part of this property, see K1 under C08).
func c06Histories(w *mon.W, idx *int) {
	n := w.Pick(60, 600)
	for i := 0; i < n; i++ {
		id := fmt.Sprintf("history-%d", i)
		*idx++
		if !w.Want(id, *idx) {
			continue
		}
		r := w.Rand(id)
		ga := &oracle.GeneticCodes[r.Intn(len(oracle.GeneticCodes))]
		gb := &oracle.GeneticCodes[r.Intn(len(oracle.GeneticCodes))]
		if i%3 == 0 {
			// pairs that assign the same amino acids but list different starts/stops
			pairs := [][2]int{{11, 1}, {1, 11}, {28, 27}, {27, 28}, {4, 25}, {2, 5}, {1, 12}, {11, 4}}
			pr := pairs[(i/3)%len(pairs)]
			for k := range oracle.GeneticCodes {
				if oracle.GeneticCodes[k].ID == pr[0] {
					ga = &oracle.GeneticCodes[k]
				}
				if oracle.GeneticCodes[k].ID == pr[1] {
					gb = &oracle.GeneticCodes[k]
				}
			}
		}
		dna := randString(r, "ACGT", 3*(1+r.Intn(400)))
		cut := []float64{0, 0.1, 0.3, 0.05}[r.Intn(4)]
		ops := fmt.Sprintf("Compromise(%d,%d,%.2f), Add(%d,%d), OptimizeTable(%d, %d bases), Optimize under %d", ga.ID, gb.ID, cut, ga.ID, gb.ID, ga.ID, len(dna), gb.ID)
		w.Begin(id, ops+" dna="+dna)
		p := mon.Try(func() {
			codon.CompromiseCodonTable(codon.GetCodonTable(ga.ID), codon.GetCodonTable(gb.ID), cut)
			codon.AddCodonTable(codon.GetCodonTable(ga.ID), codon.GetCodonTable(gb.ID))
			t := codon.GetCodonTable(ga.ID).OptimizeTable(dna)
			prot, _ := codon.Translate(dna, codon.GetCodonTable(gb.ID))
			codon.Optimize(strings.ReplaceAll(prot, "*", ""), t)
		})
		_ = p // what these operations return or reject is C07/C08/C18's business; here only the tables offered afterwards
		w.Eval(true, mon.Hash64(id, ops, dna))
		for gi := range oracle.GeneticCodes {
			g := &oracle.GeneticCodes[gi]
			if !c06VerifyTable(w, id, g, codon.GetCodonTable(g.ID), "requested after "+ops) {
				break
			}
		}
		w.Add("histories_followed_by_all_25_tables", 1)
		w.End()
	}
}
