package props

import (
	"fmt"
	"math"
	"math/rand"
	"sort"
	"strings"

	polyrandom "github.com/TimothyStiles/poly/random"
	"github.com/TimothyStiles/poly/transform/codon"

	"verif/internal/mon"
	"verif/internal/oracle"
)

func init() {
	mon.Register(&mon.Prop{
		ID: "C07", Level: "exploration",
		Rule: "all 25 default tables (deep copies) and tables re-weighted from constructed coding sequences (weights forced to 0, to exactly 10% of the synonyms and just above) x proteins of length 1..2000 over the encodable letters, outputs of random.ProteinSequence, and unencodable inputs (lower case, J B Z X U O, digits, '*' on tables without a stop, amino acids whose synonyms all have weight 0); proportionality: one Optimize call of N identical residues per (table, amino acid) judged with a Hoeffding band; non-trivial = protein of >= 2 residues or an unencodable case; distinct by hash of (table weights, protein)",
		Assumptions: []string{
			"back-translation oracle: the table's own codon->letter assignment read from the public struct, cross-checked against the NCBI oracle for default tables",
			"proportionality is a statistical clause: Hoeffding bound with total false-alarm probability < 1e-9 per run; distributions closer than the reported band half-width are not distinguishable",
			"tables are deep copies (JSON round trip) so default-table aliasing (C08 finding) cannot leak into this check",
		},
		Shards: tierShards(16, 16), WatchdogSec: tierSecs(900, 3600),
		MinStats: func(string) map[string]int64 {
			return map[string]int64{"optimize_ok_calls": 500, "unencodable_cases": 100, "proportionality_tests": 50, "generator_outputs": 50}
		},
		Run: runC07,
	})
}

// reweightedTable builds a deep copy of table id whose weights come from a constructed coding sequence.
func reweightedTable(id int, r *rand.Rand, zeroSome bool, special ...bool) (codon.Table, plainTable) {
	return reweightedTableT(id, r, zeroSome, len(special) > 0 && special[0], len(special) > 1 && special[1])
}

func reweightedTableT(id int, r *rand.Rand, zeroSome, thresholdAll, truncSensitive bool) (codon.Table, plainTable) {
	t := deepTable(id)
	base := snapshot(t)
	weights := map[string]int{}
	for _, l := range base.letters() {
		cs := make([]string, 0, len(base.AA[l]))
		for c := range base.AA[l] {
			cs = append(cs, c)
		}
		sort.Strings(cs)
		mode := r.Intn(6)
		if thresholdAll && len(cs) >= 2 {
			mode = 1
		}
		if truncSensitive && len(cs) >= 2 {
			mode = 6
		}
		switch {
		case mode == 0 && zeroSome: // whole amino acid unusable
			for _, c := range cs {
				weights[c] = 0
			}
		case mode == 1 && len(cs) >= 2: // one codon at exactly 10%, another just above
			// total T = 100, 200 or 1000: first codon T/10 (exactly 10% -> not eligible), second one unit more
			// (11%, 10.5% or 10.1% -> eligible), the rest shares the remainder
			T := []int{100, 200, 1000}[r.Intn(3)]
			weights[cs[0]] = T / 10
			weights[cs[1]] = T/10 + 1
			rest := T - 2*(T/10) - 1
			for i := 2; i < len(cs); i++ {
				if i == len(cs)-1 {
					weights[cs[i]] = rest
				} else {
					x := r.Intn(rest + 1)
					weights[cs[i]] = x
					rest -= x
				}
			}
			if len(cs) == 2 {
				weights[cs[1]] = T - T/10
			}
		case mode == 6: // shares of the form x.99 %: any rounding of shares to whole per cent shifts the proportions by 1..1.5 %
			pat := map[int][]int{2: {8901, 1099}, 3: {3399, 3299, 3302}, 4: {6100, 1299, 1299, 1302}, 5: {5000, 1299, 1299, 1299, 1103}}
			n := len(cs)
			if n > 5 {
				n = 5
			}
			for i, c := range cs {
				if i < n {
					weights[c] = pat[n][i]
				} else {
					weights[c] = 0
				}
			}
		case mode == 2: // some zero
			for _, c := range cs {
				if r.Intn(2) == 0 {
					weights[c] = 0
				} else {
					weights[c] = 1 + r.Intn(50)
				}
			}
			if !zeroSome {
				weights[cs[r.Intn(len(cs))]] = 1 + r.Intn(50)
			}
		default:
			for _, c := range cs {
				weights[c] = 1 + r.Intn(60)
			}
		}
	}
	seq := codingSequenceFor(r, weights)
	if seq == "" {
		seq = "NNN"
	}
	t = t.OptimizeTable(randCase(r, seq, 0.3))
	return t, snapshot(t)
}

func c07Optimize(w *mon.W, id string, tbl codon.Table, snap plainTable, tdesc, protein string, ncbi *oracle.GeneticCode) {
	owner := snap.codonOwner()
	encodable := true
	bad := ""
	for _, r := range protein {
		l := string(r)
		if _, ok := snap.AA[l]; !ok || snap.total(l) <= 0 {
			encodable = false
			bad = l
			break
		}
	}
	var dna string
	var err error
	p := mon.Try(func() { dna, err = codon.Optimize(protein, tbl) })
	retainCheck(w, id, "Optimize", dna, "codon.Optimize of "+clip(protein, 60)+" on "+tdesc)
	w.Eval(len(protein) >= 2 || !encodable, mon.Hash64(tdesc, protein))
	rep := map[string]any{"table": tdesc, "protein": protein, "weights": snap.AA}
	if !encodable {
		w.Add("unencodable_cases", 1)
		if p != "" {
			w.Violation(id, fmt.Sprintf("Optimize(%q, %s) crashed on the unencodable residue %q instead of returning an error: %s", clip(protein, 60), tdesc, bad, p), rep)
		} else if err == nil {
			w.Violation(id, fmt.Sprintf("Optimize(%q, %s) returned %q without error although residue %q cannot be encoded", clip(protein, 60), tdesc, clip(dna, 60), bad), rep)
		}
		return
	}
	if p != "" {
		w.Violation(id, fmt.Sprintf("Optimize(%q, %s) %s", clip(protein, 60), tdesc, p), rep)
		return
	}
	if err != nil {
		w.Violation(id, fmt.Sprintf("Optimize(%q, %s) returned error %v for an encodable protein", clip(protein, 60), tdesc, err), rep)
		return
	}
	w.Add("optimize_ok_calls", 1)
	if len(dna) != 3*len(protein) {
		w.Violation(id, fmt.Sprintf("Optimize(%q, %s) returned %d bases for %d residues", clip(protein, 60), tdesc, len(dna), len(protein)), rep)
		return
	}
	for i := 0; i < len(protein); i++ {
		c := dna[3*i : 3*i+3]
		l := string(protein[i])
		if owner[c] != l {
			w.Violation(id, fmt.Sprintf("residue %d (%s) was encoded as %s, which the table assigns to %q (%s)", i, l, c, owner[c], tdesc), rep)
			return
		}
		if ncbi != nil && ncbi.AminoAcid(c) != l {
			w.Violation(id, fmt.Sprintf("residue %d (%s) encoded as %s, NCBI table %d assigns %q", i, l, c, ncbi.ID, ncbi.AminoAcid(c)), rep)
			return
		}
		wt := snap.AA[l][c]
		if !(wt > 0 && 10*wt > snap.total(l)) {
			w.Violation(id, fmt.Sprintf("residue %d (%s): emitted codon %s has weight %d of %d among its synonyms (share not above 10%%) (%s)", i, l, c, wt, snap.total(l), tdesc), rep)
			return
		}
		w.Add("emitted_codons_checked", 1)
	}
	var back string
	if pp := mon.Try(func() { back, err = codon.Translate(dna, tbl) }); pp != "" || err != nil || back != protein {
		w.Violation(id, fmt.Sprintf("Translate(Optimize(p)) != p under %s: %q vs %q %s %v", tdesc, clip(back, 60), clip(protein, 60), pp, err), rep)
	}
}

func runC07(w *mon.W) {
	idx := 0
	nProt := w.Pick(150, 4000)
	for ti, tid := range tableIDs {
		for variant := 0; variant < 2; variant++ {
			for k := 0; k < nProt; k++ {
				id := fmt.Sprintf("opt-t%d-v%d-%d", tid, variant, k)
				idx++
				if !w.Want(id, idx) {
					continue
				}
				r := w.Rand(id)
				var tbl codon.Table
				var snap plainTable
				var ncbi *oracle.GeneticCode
				tdesc := fmt.Sprintf("default table %d", tid)
				if variant == 0 {
					tbl = deepTable(tid)
					snap = snapshot(tbl)
					ncbi = oracle.CodeByID(tid)
				} else {
					tr := w.Rand(fmt.Sprintf("tbl-%d-%d", tid, k%8))
					tbl, snap = reweightedTable(tid, tr, false)
					tdesc = fmt.Sprintf("table %d re-weighted (variant %d)", tid, k%8)
				}
				var letters []string
				for _, l := range snap.letters() {
					if snap.total(l) > 0 {
						letters = append(letters, l)
					}
				}
				n := 1 + r.Intn(2000)
				if r.Intn(2) == 0 {
					n = 1 + r.Intn(40)
				}
				var sb strings.Builder
				for i := 0; i < n; i++ {
					sb.WriteString(letters[r.Intn(len(letters))])
				}
				protein := sb.String()
				w.Begin(id, tdesc+" "+protein)
				c07Optimize(w, id, tbl, snap, tdesc, protein, ncbi)
				w.End()
				if w.WantSample() && n < 30 && variant == 1 {
					w.Sample(map[string]any{"case": id, "table": tdesc, "protein": protein, "weights_of_L": snap.AA["L"]})
				}
			}
		}
		_ = ti
	}
	// the same table value optimised, re-weighted in place and optimised again (histories of length 3..6)
	nReuse := w.Pick(2000, 100000)
	for k := 0; k < nReuse; k++ {
		id := fmt.Sprintf("reuse-%d", k)
		idx++
		if !w.Want(id, idx) {
			continue
		}
		r := w.Rand(id)
		tid := tableIDs[r.Intn(len(tableIDs))]
		tbl := deepTable(tid)
		w.Begin(id, fmt.Sprintf("table %d optimised and re-weighted in place repeatedly", tid))
		rounds := 3 + r.Intn(4)
		for round := 0; round < rounds; round++ {
			if round > 0 {
				// re-weight the very same table value (OptimizeTable mutates it in place)
				base := snapshot(tbl)
				weights := map[string]int{}
				for _, l := range base.letters() {
					first := true
					for c := range base.AA[l] {
						if first || r.Intn(3) != 0 {
							weights[c] = 1 + r.Intn(80)
						} else {
							weights[c] = 0
						}
						first = false
					}
				}
				tbl = tbl.OptimizeTable(codingSequenceFor(r, weights))
			}
			snap := snapshot(tbl)
			var letters []string
			for _, l := range snap.letters() {
				if snap.total(l) > 0 {
					letters = append(letters, l)
				}
			}
			n := 20 + r.Intn(300)
			var sb strings.Builder
			for i := 0; i < n; i++ {
				sb.WriteString(letters[r.Intn(len(letters))])
			}
			c07Optimize(w, id, tbl, snap, fmt.Sprintf("table %d after %d in-place re-weightings", tid, round), sb.String(), nil)
			w.Add("optimize_after_inplace_reweighting", 1)
		}
		w.End()
	}
	// unencodable inputs
	nBad := w.Pick(1500, 50000)
	for k := 0; k < nBad; k++ {
		id := fmt.Sprintf("bad-%d", k)
		idx++
		if !w.Want(id, idx) {
			continue
		}
		r := w.Rand(id)
		tid := tableIDs[r.Intn(len(tableIDs))]
		var tbl codon.Table
		var snap plainTable
		tdesc := fmt.Sprintf("default table %d", tid)
		kind := r.Intn(5)
		if kind == 4 {
			tbl, snap = reweightedTable(tid, r, true)
			tdesc = fmt.Sprintf("table %d re-weighted with zeroed amino acids", tid)
		} else {
			tbl = deepTable(tid)
			snap = snapshot(tbl)
		}
		var good, zeroed []string
		for _, l := range snap.letters() {
			if snap.total(l) > 0 {
				good = append(good, l)
			} else {
				zeroed = append(zeroed, l)
			}
		}
		n := 1 + r.Intn(30)
		b := make([]string, n)
		for i := range b {
			b[i] = good[r.Intn(len(good))]
		}
		pos := r.Intn(n)
		switch r.Intn(4) { // the unencodable residue also as the first and as the closing residue of the protein
		case 0:
			pos = 0
		case 1:
			pos = n - 1
		}
		switch kind {
		case 0:
			b[pos] = strings.ToLower(good[r.Intn(len(good))])
			if b[pos] == "*" {
				b[pos] = "m"
			}
		case 1:
			b[pos] = string("JBZXUO"[r.Intn(6)])
		case 2:
			b[pos] = string("0123456789 -?\n"[r.Intn(14)])
		case 3:
			if _, ok := snap.AA["*"]; ok && snap.total("*") > 0 {
				b[pos] = "é"
				if r.Intn(2) == 0 {
					// a letter of two or three bytes whose code point ends in the byte of an encodable residue
					b[pos] = string(rune(0x100*(1+r.Intn(0x4f)) + int(good[r.Intn(len(good))][0])))
				}
			} else {
				b[pos] = "*"
			}
		default:
			if len(zeroed) == 0 {
				b[pos] = "J"
			} else {
				b[pos] = zeroed[r.Intn(len(zeroed))]
				for _, z := range zeroed { // a closing stop the table has no usable codon for, as generated proteins end
					if z == "*" && r.Intn(2) == 0 {
						pos = n - 1
						b[pos] = "*"
					}
				}
			}
		}
		protein := strings.Join(b, "")
		w.Begin(id, tdesc+" "+protein)
		c07Optimize(w, id, tbl, snap, tdesc, protein, nil)
		w.End()
	}
	// generator outputs
	nGen := w.Pick(1000, 30000)
	aa20 := "ACDEFGHIKLMNPQRSTVWY*"
	for k := 0; k < nGen; k++ {
		id := fmt.Sprintf("gen-%d", k)
		idx++
		if !w.Want(id, idx) {
			continue
		}
		r := w.Rand(id)
		n := 3 + r.Intn(1998)
		if r.Intn(2) == 0 {
			n = 3 + r.Intn(60)
		}
		seed := r.Int63()
		var prot string
		var err error
		w.Begin(id, fmt.Sprintf("ProteinSequence(%d,%d)", n, seed))
		p := mon.Try(func() { prot, err = polyrandom.ProteinSequence(n, seed) })
		w.Add("generator_outputs", 1)
		w.Eval(true, mon.Hash64("gen", fmt.Sprint(n, seed)))
		if p != "" || err != nil {
			w.Violation(id, fmt.Sprintf("random.ProteinSequence(%d,%d): %s %v", n, seed, p, err), nil)
			w.End()
			continue
		}
		for i, c := range prot {
			if !strings.ContainsRune(aa20, c) {
				w.Violation(id, fmt.Sprintf("random.ProteinSequence(%d,%d) = %q contains %q at %d, which is not one of the 20 amino acids or '*'", n, seed, clip(prot, 60), c, i), map[string]any{"length": n, "seed": seed})
				break
			}
		}
		tid := tableIDs[r.Intn(len(tableIDs))]
		tbl := deepTable(tid)
		c07Optimize(w, id, tbl, snapshot(tbl), fmt.Sprintf("default table %d", tid), prot, oracle.CodeByID(tid))
		w.End()
	}
	// proportionality
	nTab := w.Pick(6, 25)
	draws := w.Pick(300000, 1000000)
	// K = number of codon frequency tests in the whole run (upper bound: tables x 64)
	K := float64(nTab * 64)
	band := math.Sqrt(math.Log(2*K/1e-9) / (2 * float64(draws)))
	w.Extra("proportionality", map[string]any{"draws_per_amino_acid": draws, "tables": nTab, "hoeffding_band_half_width": band, "false_alarm_probability_bound": 1e-9})
	for t := 0; t < nTab; t++ {
		tid := tableIDs[(t*7)%len(tableIDs)]
		tr := w.Rand(fmt.Sprintf("proptbl-%d", t))
		// every second table puts one codon of every amino acid at exactly 10% and another just above (10.1..11%)
		// and every third one gives every amino acid shares of the form x.99 %
		tbl, snap := reweightedTable(tid, tr, false, t%3 == 1, t%3 == 2)
		if t%6 == 3 {
			// a table of a whole genome: the same proportions with counts in the tens and hundreds of thousands
			f := 300 + tr.Intn(1500)
			for ai := range tbl.AminoAcids {
				for ci := range tbl.AminoAcids[ai].Codons {
					tbl.AminoAcids[ai].Codons[ci].Weight *= f
				}
			}
			snap = snapshot(tbl)
			w.Add("proportionality_tables_with_genome_sized_counts", 1)
		}
		if t%6 == 5 {
			// a default table with uniform weights: every synonym is eligible, also the seventh and eighth of serine
			tid = []int{5, 12, 9, 24}[(t/6)%4]
			tbl = deepTable(tid)
			snap = snapshot(tbl)
		}
		for _, l := range snap.letters() {
			id := fmt.Sprintf("prop-t%d-%s", tid, l)
			idx++
			if !w.Want(id, idx) {
				continue
			}
			el := snap.eligible(l)
			if len(el) == 0 {
				continue
			}
			w.Begin(id, fmt.Sprintf("%d x %s on re-weighted table %d %v", draws, l, tid, snap.AA[l]))
			var dna string
			var err error
			p := mon.Try(func() { dna, err = codon.Optimize(strings.Repeat(l, draws), tbl) })
			w.Eval(true, mon.Hash64("prop", fmt.Sprint(tid), l))
			if p != "" || err != nil || len(dna) != 3*draws {
				w.Violation(id, fmt.Sprintf("Optimize of %d x %q: %s %v len %d", draws, l, p, err, len(dna)), nil)
				w.End()
				continue
			}
			counts := map[string]int{}
			for i := 0; i < draws; i++ {
				counts[dna[3*i:3*i+3]]++
			}
			sumE := 0
			for _, wt := range el {
				sumE += wt
			}
			for c, n := range counts {
				if _, ok := el[c]; !ok {
					w.Violation(id, fmt.Sprintf("amino acid %s: codon %s (weight %d of %d) was emitted %d times but is not eligible", l, c, snap.AA[l][c], snap.total(l), n), map[string]any{"weights": snap.AA[l]})
				}
			}
			for c, wt := range el {
				w.Add("proportionality_tests", 1)
				exp := float64(wt) / float64(sumE)
				obs := float64(counts[c]) / float64(draws)
				w.Max("max_abs_deviation_ppm", int64(math.Abs(obs-exp)*1e6))
				if math.Abs(obs-exp) > band {
					w.Violation(id, fmt.Sprintf("amino acid %s on re-weighted table %d: codon %s chosen with frequency %.4f over %d draws, weight share among eligible codons is %.4f (band +/-%.4f); weights %v", l, tid, c, obs, draws, exp, band, snap.AA[l]), map[string]any{"weights": snap.AA[l]})
				}
			}
			w.End()
		}
	}

	// ---- the 10% threshold at every total: one lysine codon holds exactly a tenth of the usage, for every total
	// 10, 20, .. 6000 (the decision is exact in integers: weight*10 > total; any arithmetic in floating point has
	// to agree with it at every one of these points)
	for blk := 0; blk < 60; blk++ {
		id := fmt.Sprintf("tenth-%d", blk)
		idx++
		if !w.Want(id, idx) {
			continue
		}
		w.Begin(id, fmt.Sprintf("totals %d..%d step 10, AAG at exactly 10%%", blk*100+10, blk*100+100))
		for total := blk*100 + 10; total <= blk*100+100; total += 10 {
			tbl := deepTable(1)
			var dna, seq string
			var err error
			seq = strings.Repeat("AAG", total/10) + strings.Repeat("AAA", total-total/10)
			p := mon.Try(func() {
				tbl = tbl.OptimizeTable(seq)
				dna, err = codon.Optimize(strings.Repeat("K", 400), tbl)
			})
			w.Eval(true, mon.Hash64("tenth", fmt.Sprint(total)))
			w.Add("totals_with_a_codon_at_exactly_a_tenth", 1)
			if p != "" || err != nil || len(dna) != 1200 {
				w.Violation(id, fmt.Sprintf("Optimize of 400 x K on table 1 re-weighted with AAG %d, AAA %d: %s %v (length %d)", total/10, total-total/10, p, err, len(dna)), map[string]any{"total": total})
				continue
			}
			for i := 0; i+3 <= len(dna); i += 3 {
				if dna[i:i+3] != "AAA" {
					w.Violation(id, fmt.Sprintf("residue %d of 400 x K: emitted codon %s has weight %d of %d among its synonyms (share exactly 10%%, not above)", i/3, dna[i:i+3], total/10, total), map[string]any{"total": total})
					break
				}
			}
		}
		w.End()
	}

	// ---- ... and the smallest share above a tenth at every total 9, 19, .. 5999: AAG holds (total+1)/10 of total,
	// which is above 10% by less than a hundredth of a percent from total 1009 on; the codon is eligible and
	// 400 draws that never show it have probability 0.9^400 < 10^-18
	for blk := 0; blk < 60; blk++ {
		id := fmt.Sprintf("over-tenth-%d", blk)
		idx++
		if !w.Want(id, idx) {
			continue
		}
		w.Begin(id, fmt.Sprintf("totals %d..%d step 10, AAG just above 10%%", blk*100+9, blk*100+99))
		for total := blk*100 + 9; total <= blk*100+99; total += 10 {
			tbl := deepTable(1)
			var dna string
			var err error
			wt := (total + 1) / 10
			seq := strings.Repeat("AAG", wt) + strings.Repeat("AAA", total-wt)
			p := mon.Try(func() {
				tbl = tbl.OptimizeTable(seq)
				dna, err = codon.Optimize(strings.Repeat("K", 400), tbl)
			})
			w.Eval(true, mon.Hash64("over-tenth", fmt.Sprint(total)))
			w.Add("totals_with_a_codon_just_above_a_tenth", 1)
			if p != "" || err != nil || len(dna) != 1200 {
				w.Violation(id, fmt.Sprintf("Optimize of 400 x K on table 1 re-weighted with AAG %d, AAA %d: %s %v (length %d)", wt, total-wt, p, err, len(dna)), map[string]any{"total": total})
				continue
			}
			if n := strings.Count(dna, "AAG"); total > 9 && func() bool {
				for i := 0; i+3 <= len(dna); i += 3 {
					if dna[i:i+3] == "AAG" {
						return false
					}
				}
				return true
			}() {
				w.Violation(id, fmt.Sprintf("400 x K on table 1 re-weighted with AAG %d, AAA %d: AAG has a share above 10%% (%d*10 > %d) and was never emitted (%d matches of AAG out of frame)", wt, total-wt, wt, total, n), map[string]any{"total": total})
			}
		}
		w.End()
	}

	// ---- proportionality by position: the first and the last residue of a protein of the usual form M...* are
	// drawn like any other (default tables: every synonym of M, and every stop codon, equally often)
	pdraws := w.Pick(20000, 100000)
	pband := math.Sqrt(math.Log(2*200/1e-9) / (2 * float64(pdraws)))
	for _, tid := range tableIDs {
		id := fmt.Sprintf("ends-t%d", tid)
		idx++
		if !w.Want(id, idx) {
			continue
		}
		tbl := deepTable(tid)
		snap := snapshot(tbl)
		elM, elS := snap.eligible("M"), snap.eligible("*")
		if len(elM) < 2 && len(elS) < 2 {
			continue
		}
		r := w.Rand(id)
		var inner []string
		for _, l := range snap.letters() {
			if l != "*" && snap.total(l) > 0 {
				inner = append(inner, l)
			}
		}
		prot := "M" + inner[r.Intn(len(inner))] + inner[r.Intn(len(inner))] + inner[r.Intn(len(inner))]
		if len(elS) > 0 {
			prot += "*"
		}
		w.Begin(id, fmt.Sprintf("%d x Optimize(%q) on default table %d", pdraws, prot, tid))
		first, last := map[string]int{}, map[string]int{}
		bad := false
		for i := 0; i < pdraws && !bad; i++ {
			var dna string
			var err error
			if p := mon.Try(func() { dna, err = codon.Optimize(prot, tbl) }); p != "" || err != nil || len(dna) != 3*len(prot) {
				w.Violation(id, fmt.Sprintf("Optimize(%q, default table %d): %s %v (length %d)", prot, tid, p, err, len(dna)), nil)
				bad = true
				break
			}
			first[dna[:3]]++
			last[dna[len(dna)-3:]]++
		}
		w.Eval(true, mon.Hash64("ends", fmt.Sprint(tid), prot))
		if !bad {
			for _, side := range []struct {
				name   string
				el     map[string]int
				counts map[string]int
			}{{"first residue (M)", elM, first}, {"last residue (*)", elS, last}} {
				if len(side.el) < 2 || (side.name[0] == 'l' && !strings.HasSuffix(prot, "*")) {
					continue
				}
				sum := 0
				for _, wt := range side.el {
					sum += wt
				}
				for c, wt := range side.el {
					w.Add("proportionality_tests_by_position", 1)
					exp, obs := float64(wt)/float64(sum), float64(side.counts[c])/float64(pdraws)
					if math.Abs(obs-exp) > pband {
						w.Violation(id, fmt.Sprintf("%s of %q on default table %d: codon %s chosen with frequency %.4f over %d calls, its weight share among the eligible codons is %.4f (band +/-%.4f)", side.name, prot, tid, c, obs, pdraws, exp, pband), map[string]any{"table": tid, "protein": prot})
					}
				}
			}
		}
		w.End()
	}
}
