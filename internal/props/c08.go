package props

import (
	"encoding/json"
	"fmt"
	"math/rand"
	"runtime"
	"sort"
	"strings"
	"sync"

	"github.com/TimothyStiles/poly/transform/codon"

	"verif/internal/mon"
	"verif/internal/oracle"
)

func init() {
	mon.Register(&mon.Prop{
		ID: "C08", StallDetector: true, Race: true, Level: "exploration",
		Rule: "cold start: in every child process the first use of the package is one goroutine per default table requesting it at the same moment; churn: series of 80..900 different sequences of one length (1,024..100,000) in freshly allocated strings; counting clause: coding sequences of length 0..10^5 in any case, lengths not divisible by 3, non-ACGT letters, on deep copies of all 25 tables; history clause: every operation sequence up to length 4 over {request default table, re-weight, add, compromise, serialise/parse} on two table ids with two coding sequences (complete DFS) plus random histories of length 5..8 on three ids, every live table read back after every step and compared with a value-semantics model (and, on mismatch, with the defect model of the listed known finding); concurrent clause: 16 goroutines re-weighting tables with pairwise different ids per round under the race detector; non-trivial = history with >= 2 steps, or a coding sequence of >= 2 codons; distinct by hash of the history / sequence",
		Assumptions: []string{
			"value-semantics model: get, parse(serialise), add, compromise create independent tables; re-weight returns a handle on the receiver's table with weights = in-frame case-insensitive counts; the receiver handle itself is not inspected again (the method documents in-place mutation)",
			"compromise values are C18's subject: here a compromise result is only required to keep its creation-time value and the genetic code",
			"race detector: a report with a poly frame is a violation",
		},
		Shards: tierShards(16, 16), WatchdogSec: tierSecs(900, 3600),
		MinStats: func(string) map[string]int64 {
			return map[string]int64{"history_steps_checked": 5000, "tables_read_back": 10000, "concurrent_rounds": 20, "counting_cases": 200}
		},
		Run: runC08,
	})
}

// ---- models -----------------------------------------------------------------

type c8obj struct {
	id      int            // genetic code id
	weights map[string]int // codon -> weight
	frozen  bool           // opaque value fixed at creation (compromise)
}

func (o *c8obj) clone() *c8obj {
	n := &c8obj{id: o.id, weights: map[string]int{}, frozen: o.frozen}
	for k, v := range o.weights {
		n.weights[k] = v
	}
	return n
}

type c8handle struct {
	tbl     codon.Table
	val     *c8obj // value-semantics model object
	def     *c8obj // defect-model object (default tables of one id share one object)
	retired bool   // was the receiver of a re-weighting: not inspected again
	origin  string
}

type c8world struct {
	handles    []*c8handle
	defStorage map[int]*c8obj
	pristine   map[int]plainTable
	trace      []string
}

func uniformWeights(p plainTable) map[string]int {
	m := map[string]int{}
	for _, cs := range p.AA {
		for c := range cs {
			m[c] = 1
		}
	}
	return m
}

func newWorld(pristine map[int]plainTable) *c8world {
	return &c8world{defStorage: map[int]*c8obj{}, pristine: pristine}
}

func (wd *c8world) live() []int {
	var out []int
	for i, h := range wd.handles {
		if !h.retired {
			out = append(out, i)
		}
	}
	return out
}

func weightsOf(t codon.Table) map[string]int {
	m := map[string]int{}
	for _, a := range t.AminoAcids {
		for _, c := range a.Codons {
			m[c.Triplet] = c.Weight
		}
	}
	return m
}

func (wd *c8world) opGet(id int) {
	t := codon.GetCodonTable(id)
	val := &c8obj{id: id, weights: uniformWeights(wd.pristine[id])}
	if wd.defStorage[id] == nil {
		wd.defStorage[id] = &c8obj{id: id, weights: uniformWeights(wd.pristine[id])}
	}
	wd.handles = append(wd.handles, &c8handle{tbl: t, val: val, def: wd.defStorage[id], origin: fmt.Sprintf("get(%d)", id)})
	wd.trace = append(wd.trace, fmt.Sprintf("h%d = GetCodonTable(%d)", len(wd.handles)-1, id))
}

func applyCounts(o *c8obj, seq string) {
	cnt := countCodons(seq)
	for c := range o.weights {
		o.weights[c] = cnt[c]
	}
}

func (wd *c8world) opReweight(k int, seq string) {
	h := wd.handles[k]
	t2 := h.tbl.OptimizeTable(seq)
	applyCounts(h.val, seq)
	if !h.def.frozen || true {
		applyCounts(h.def, seq)
	}
	h.val.frozen, h.def.frozen = false, false
	h.retired = true
	wd.handles = append(wd.handles, &c8handle{tbl: t2, val: h.val, def: h.def, origin: fmt.Sprintf("h%d.OptimizeTable", k)})
	wd.trace = append(wd.trace, fmt.Sprintf("h%d = h%d.OptimizeTable(%q)", len(wd.handles)-1, k, clip(seq, 40)))
}

func (wd *c8world) opParse(k int) {
	h := wd.handles[k]
	b, _ := json.Marshal(h.tbl)
	t2 := codon.ParseCodonJSON(b)
	// the serialised form is what poly holds now; both models predict their own current value
	wd.handles = append(wd.handles, &c8handle{tbl: t2, val: h.val.clone(), def: h.def.clone(), origin: fmt.Sprintf("parse(json(h%d))", k)})
	wd.trace = append(wd.trace, fmt.Sprintf("h%d = ParseCodonJSON(json(h%d))", len(wd.handles)-1, k))
}

func (wd *c8world) opAdd(k1, k2 int) {
	a, b := wd.handles[k1], wd.handles[k2]
	t := codon.AddCodonTable(a.tbl, b.tbl)
	sum := func(x, y *c8obj) *c8obj {
		o := &c8obj{id: x.id, weights: map[string]int{}}
		for c, v := range x.weights {
			o.weights[c] = v + y.weights[c]
		}
		return o
	}
	wd.handles = append(wd.handles, &c8handle{tbl: t, val: sum(a.val, b.val), def: sum(a.def, b.def), origin: fmt.Sprintf("add(h%d,h%d)", k1, k2)})
	wd.trace = append(wd.trace, fmt.Sprintf("h%d = AddCodonTable(h%d,h%d)", len(wd.handles)-1, k1, k2))
}

func (wd *c8world) opCompromise(k1, k2 int) bool {
	a, b := wd.handles[k1], wd.handles[k2]
	// totals must be positive in both (C18's precondition), judged on what poly holds now
	for _, t := range []codon.Table{a.tbl, b.tbl} {
		for _, aa := range t.AminoAcids {
			s := 0
			for _, c := range aa.Codons {
				s += c.Weight
			}
			if s == 0 {
				return false
			}
		}
	}
	t, err := codon.CompromiseCodonTable(a.tbl, b.tbl, 0.1)
	if err != nil {
		return false
	}
	o := &c8obj{id: a.val.id, weights: weightsOf(t), frozen: true}
	wd.handles = append(wd.handles, &c8handle{tbl: t, val: o, def: o.clone(), origin: fmt.Sprintf("compromise(h%d,h%d)", k1, k2)})
	wd.trace = append(wd.trace, fmt.Sprintf("h%d = CompromiseCodonTable(h%d,h%d,0.1)", len(wd.handles)-1, k1, k2))
	return true
}

// check reads back every live table; returns "", "known" or a violation message.
func (wd *c8world) check(w *mon.W) (verdict, msg string) {
	mismatchVal, mismatchDef := "", ""
	for i, h := range wd.handles {
		if h.retired {
			continue
		}
		w.Add("tables_read_back", 1)
		snap := snapshot(h.tbl)
		// genetic code untouched
		if d := sameAssignment(wd.pristine[h.val.id], snap); d != "" {
			return "violation", fmt.Sprintf("h%d (%s): codon assignment or start/stop codons changed: %s", i, h.origin, d)
		}
		got := weightsOf(h.tbl)
		for c, wv := range h.val.weights {
			if got[c] != wv && mismatchVal == "" {
				mismatchVal = fmt.Sprintf("h%d (%s): codon %s has weight %d, value semantics give %d", i, h.origin, c, got[c], wv)
			}
		}
		for c, wv := range h.def.weights {
			if got[c] != wv && mismatchDef == "" {
				mismatchDef = fmt.Sprintf("h%d (%s): codon %s has weight %d, the aliasing defect model gives %d", i, h.origin, c, got[c], wv)
			}
		}
	}
	if mismatchVal == "" {
		return "", ""
	}
	if mismatchDef == "" {
		return "known", mismatchVal
	}
	return "violation", mismatchVal + " (not explained by default-table aliasing either: " + mismatchDef + ")"
}

func c8Pristine() map[int]plainTable {
	m := map[int]plainTable{}
	for _, g := range oracle.GeneticCodes {
		p := plainTable{Starts: append([]string(nil), g.Starts...), Stops: append([]string(nil), g.Stops...), AA: map[string]map[string]int{}}
		for aa, cs := range g.Synonyms() {
			p.AA[aa] = map[string]int{}
			for _, c := range cs {
				p.AA[aa][c] = 1
			}
		}
		// order of start/stop lists: take poly's order after checking set equality
		t := deepTable(g.ID)
		if strings.Join(sortedCopy(t.StartCodons), ",") == strings.Join(sortedCopy(g.Starts), ",") {
			p.Starts = append([]string(nil), t.StartCodons...)
		}
		if strings.Join(sortedCopy(t.StopCodons), ",") == strings.Join(sortedCopy(g.Stops), ",") {
			p.Stops = append([]string(nil), t.StopCodons...)
		}
		m[g.ID] = p
	}
	return m
}

// resetDefaults brings poly's package-level tables back to uniform weights between histories
// (needed only because of the aliasing finding; done through the public API).
func resetDefaults(ids []int, pristine map[int]plainTable) {
	for _, id := range ids {
		var sb strings.Builder
		for _, cs := range pristine[id].AA {
			for c := range cs {
				sb.WriteString(c)
			}
		}
		codon.GetCodonTable(id).OptimizeTable(sb.String())
	}
}

type c8op struct {
	kind string
	a, b int
	seq  string
}

func (wd *c8world) apply(op c8op) bool {
	switch op.kind {
	case "get":
		wd.opGet(op.a)
	case "rw":
		wd.opReweight(op.a, op.seq)
	case "parse":
		wd.opParse(op.a)
	case "add":
		wd.opAdd(op.a, op.b)
	case "comp":
		return wd.opCompromise(op.a, op.b)
	}
	return true
}

// enabled lists the operations available in the current state.
func (wd *c8world) enabled(ids []int, seqs []string) []c8op {
	var ops []c8op
	for _, id := range ids {
		ops = append(ops, c8op{kind: "get", a: id})
	}
	lv := wd.live()
	for _, k := range lv {
		for _, s := range seqs {
			ops = append(ops, c8op{kind: "rw", a: k, seq: s})
		}
		ops = append(ops, c8op{kind: "parse", a: k})
	}
	for _, k1 := range lv {
		for _, k2 := range lv {
			// add is defined codon by codon (each codon gets the sum of its two weights, the first table's
			// assignment is kept), so it is also applied to tables of different genetic codes; the compromise
			// works on per-amino-acid shares and is only applied within one code
			ops = append(ops, c8op{kind: "add", a: k1, b: k2})
			if wd.handles[k1].val.id == wd.handles[k2].val.id && k1 != k2 {
				ops = append(ops, c8op{kind: "comp", a: k1, b: k2})
			}
		}
	}
	return ops
}

func runHistory(w *mon.W, id string, pristine map[int]plainTable, ids []int, ops []c8op) {
	resetDefaults(ids, pristine)
	wd := newWorld(pristine)
	knownSeen := ""
	for si, op := range ops {
		var ok bool
		if p := mon.Try(func() { ok = wd.apply(op) }); p != "" {
			w.Violation(id, fmt.Sprintf("step %d %v: %s; history: %s", si, op, p, strings.Join(wd.trace, "; ")), map[string]any{"history": wd.trace})
			return
		}
		if !ok {
			continue
		}
		w.Add("history_steps_checked", 1)
		v, msg := wd.check(w)
		switch v {
		case "violation":
			w.Violation(id, fmt.Sprintf("after step %d: %s; history: %s", si, msg, strings.Join(wd.trace, "; ")), map[string]any{"history": wd.trace})
			return
		case "known":
			if knownSeen == "" {
				knownSeen = fmt.Sprintf("after step %d: %s; history: %s", si, msg, strings.Join(wd.trace, "; "))
			}
		}
	}
	w.Eval(len(ops) >= 2, mon.Hash64(fmt.Sprint(ops)))
	if knownSeen != "" {
		w.Known("default-table-aliasing", id, knownSeen)
	}
	if w.WantSample() && len(wd.trace) >= 4 {
		w.Sample(map[string]any{"case": id, "history": wd.trace, "matches_value_model": knownSeen == ""})
	}
}

// c08ColdStart is the first use of package codon in this child process: every default table is requested at the
// same moment from a goroutine of its own (whatever the package builds lazily is built under contention, and
// under the race detector) and must carry the NCBI assignment with every weight 1.
func c08ColdStart(w *mon.W) {
	id := fmt.Sprintf("cold-start-%d", w.Shard)
	w.Begin(id, "one goroutine per default table requests it as the first use of the package in this process")
	got := make([]codon.Table, len(tableIDs))
	panics := make([]string, len(tableIDs))
	var gate, wg sync.WaitGroup
	gate.Add(1)
	for i, tid := range tableIDs {
		i, tid := i, tid
		wg.Add(1)
		go func() {
			defer wg.Done()
			gate.Wait()
			panics[i] = mon.Try(func() { got[i] = codon.GetCodonTable(tid) })
		}()
	}
	gate.Done()
	wg.Wait()
	for i, g := range oracle.GeneticCodes {
		w.Eval(true, mon.Hash64(id, fmt.Sprint(g.ID)))
		w.Add("default_tables_requested_concurrently_at_process_start", 1)
		if panics[i] != "" {
			w.Violation(id, fmt.Sprintf("GetCodonTable(%d) requested concurrently with the other tables at process start: %s", g.ID, panics[i]), nil)
			continue
		}
		snap := snapshot(got[i])
		bad := ""
		syn := g.Synonyms()
		if len(snap.AA) != len(syn) {
			bad = fmt.Sprintf("%d amino acids, NCBI has %d", len(snap.AA), len(syn))
		}
		for aa, cs := range syn {
			if len(snap.AA[aa]) != len(cs) {
				bad = fmt.Sprintf("amino acid %s has codons %v, NCBI assigns %v", aa, snap.AA[aa], cs)
			}
			for _, c := range cs {
				if snap.AA[aa][c] != 1 {
					bad = fmt.Sprintf("codon %s of %s has weight %d in a fresh default table (1 expected)", c, aa, snap.AA[aa][c])
				}
			}
		}
		if strings.Join(sortedCopy(snap.Starts), ",") != strings.Join(sortedCopy(g.Starts), ",") || strings.Join(sortedCopy(snap.Stops), ",") != strings.Join(sortedCopy(g.Stops), ",") {
			bad = fmt.Sprintf("start/stop codons %v / %v, NCBI lists %v / %v", snap.Starts, snap.Stops, g.Starts, g.Stops)
		}
		if bad != "" {
			w.Violation(id, fmt.Sprintf("default table %d requested concurrently with the other tables at process start: %s", g.ID, bad), nil)
		}
	}
	w.End()
}

func runC08(w *mon.W) {
	c08ColdStart(w)
	pristine := c8Pristine()
	idx := 0
	// self-check of the pristine model against deep copies
	for _, tid := range tableIDs {
		if d := sameAssignment(pristine[tid], snapshot(deepTable(tid))); d != "" && w.Shard == 0 {
			// a genuine difference of the genetic code is C06's subject; here it makes the model unusable
			w.SelfCheckFail(fmt.Sprintf("pristine model of table %d differs from poly's table: %s (see C06)", tid, d))
		}
	}

	// ---- counting clause
	nCount := w.Pick(2000, 12000)
	for k := 0; k < nCount; k++ {
		id := fmt.Sprintf("count-%d", k)
		idx++
		if !w.Want(id, idx) {
			continue
		}
		r := w.Rand(id)
		tid := tableIDs[r.Intn(len(tableIDs))]
		var n int
		switch r.Intn(4) {
		case 0:
			n = r.Intn(8)
		case 1:
			n = r.Intn(400)
		case 2:
			n = r.Intn(10000)
		default:
			n = r.Intn(w.Pick(30000, 100001))
		}
		if k%8 == 7 {
			// lengths around the usual block sizes (a block-wise counter meets a codon that straddles the block end)
			n = []int{4096, 16384, 32768, 65536}[r.Intn(4)]*(1+r.Intn(2)) + r.Intn(9) - 2
			if n > 100000 {
				n = 65536 + r.Intn(9) - 2
			}
			w.Add("counting_cases_at_block_sizes", 1)
		}
		alpha := "ACGT"
		switch r.Intn(5) {
		case 0:
			alpha = "ACGTN"
		case 1:
			alpha = "ACGTRYKMSWUX-*"
		case 2:
			alpha = "ACGU" // an RNA spelling holds no T at all: its U codons are not the T codons of the table
		}
		seq := randCase(r, randString(r, alpha, n), []float64{0, 0.5, 1}[r.Intn(3)])
		if k%16 == 15 {
			// extreme counts: one or two codons fill a sequence of up to 10^5 letters (counts up to 33,333)
			c1, c2 := randString(r, "ACGT", 3), randString(r, "ACGT", 3)
			reps := []int{100000 / 3, 32768, 32767, 65536 / 3, 1 + r.Intn(33333)}[r.Intn(5)]
			if w.Quick() && k%32 != 31 && reps > 11000 {
				reps = 10923 // keep most quick cases short; every other one goes to the full length
			}
			var sb strings.Builder
			for i := 0; i < reps; i++ {
				if i%97 == 96 {
					sb.WriteString(c2)
				} else {
					sb.WriteString(c1)
				}
			}
			seq = randCaseBlocks(r, sb.String()+randString(r, "ACGT", r.Intn(3)), 5000)
			n = len(seq)
			w.Add("counting_cases_with_extreme_counts", 1)
		} else if r.Intn(5) == 0 {
			seq = randCaseBlocks(r, strings.ToUpper(seq), 300)
		}
		w.Begin(id, seq)
		t := deepTable(tid)
		var t2 codon.Table
		p := mon.Try(func() { t2 = t.OptimizeTable(seq) })
		w.Eval(n >= 6, mon.Hash64(fmt.Sprint(tid), seq))
		w.Add("counting_cases", 1)
		if n%3 != 0 {
			w.Add("counting_cases_length_not_divisible_by_3", 1)
		}
		if p != "" {
			w.Violation(id, fmt.Sprintf("OptimizeTable(%q) on table %d: %s", clip(seq, 60), tid, p), map[string]any{"table": tid, "sequence": seq})
			w.End()
			continue
		}
		cnt := countCodons(seq)
		snap := snapshot(t2)
		if d := sameAssignment(pristine[tid], snap); d != "" {
			w.Violation(id, fmt.Sprintf("OptimizeTable changed the genetic code of table %d: %s", tid, d), map[string]any{"table": tid, "sequence": seq})
		}
		for l, cs := range snap.AA {
			for c, wt := range cs {
				if wt != cnt[c] {
					w.Violation(id, fmt.Sprintf("table %d re-weighted with %q: codon %s (%s) has weight %d, it occurs %d times in frame", tid, clip(seq, 60), c, l, wt, cnt[c]), map[string]any{"table": tid, "sequence": seq})
					break
				}
			}
		}
		w.End()
	}

	// ---- window edges: an upper-case A/C/G/T sequence whose only irregularity - a lower-case stretch that ends, a
	// single lower-case letter, a single N, Y or R - sits within three letters of a multiple of 4096, 8192, ...,
	// 65536 (a counter that works window by window meets it in the codon that straddles two windows)
	for _, W := range []int{4096, 8192, 16384, 32768, 65536} {
		for k := 1; k*W < 100000 && k <= 3; k++ {
			id := fmt.Sprintf("edge-%d-%d", W, k)
			idx++
			if !w.Want(id, idx) {
				continue
			}
			r := w.Rand(id)
			w.Begin(id, fmt.Sprintf("irregularities within 3 letters of %d in upper-case sequences", k*W))
			for d := -3; d <= 3; d++ {
				for kind := 0; kind < 4; kind++ {
					L := k*W + W + 5 + r.Intn(7)
					if L > 100000 {
						L = 100000
					}
					pos := k*W + d
					if pos >= L {
						continue
					}
					b := []byte(randString(r, "ACGT", L))
					what := ""
					switch kind {
					case 0:
						from := pos - 1 - r.Intn(3000)
						if r.Intn(2) == 0 || from < 0 {
							from = 0
						}
						for j := from; j < pos; j++ {
							b[j] += 32
						}
						what = fmt.Sprintf("lower case from %d up to %d", from, pos)
					case 1:
						b[pos] += 32
						what = fmt.Sprintf("one lower-case letter at %d", pos)
					case 2:
						b[pos] = "NYRn"[r.Intn(4)]
						what = fmt.Sprintf("one ambiguity code at %d", pos)
					default:
						for j := pos; j < L; j++ {
							b[j] += 32
						}
						what = fmt.Sprintf("lower case from %d to the end", pos)
					}
					seq := string(b)
					tid := tableIDs[r.Intn(len(tableIDs))]
					t := deepTable(tid)
					var t2 codon.Table
					if p := mon.Try(func() { t2 = t.OptimizeTable(seq) }); p != "" {
						w.Violation(id, fmt.Sprintf("OptimizeTable on %d letters (%s), table %d: %s", L, what, tid, p), map[string]any{"table": tid, "sequence": seq})
						continue
					}
					w.Eval(true, mon.Hash64(fmt.Sprint(tid), seq))
					w.Add("window_edge_cases", 1)
					cnt := countCodons(seq)
					bad := false
					for l, cs := range snapshot(t2).AA {
						for c, wt := range cs {
							if wt != cnt[c] && !bad {
								w.Violation(id, fmt.Sprintf("table %d re-weighted with %d upper-case letters with %s: codon %s (%s) has weight %d, it occurs %d times in frame", tid, L, what, c, l, wt, cnt[c]), map[string]any{"table": tid, "sequence": seq})
								bad = true
							}
						}
					}
				}
			}
			w.End()
		}
	}

	// ---- churn: many different sequences of one and the same length, each in a freshly allocated string that
	// becomes garbage right after its call (a later string of that length is likely to be placed where an
	// earlier one was): each result depends on the letters of that call's argument only
	nChurn := w.Pick(16, 64)
	for k := 0; k < nChurn; k++ {
		id := fmt.Sprintf("churn-%d", k)
		idx++
		if !w.Want(id, idx) {
			continue
		}
		r := w.Rand(id)
		L := []int{100000, 30000, 65536, 4096, 1024 + r.Intn(3000)}[k%5]
		rounds := w.Pick(80, 300)
		if L < 50000 {
			rounds *= 3
		}
		w.Begin(id, fmt.Sprintf("%d different sequences of %d letters one after the other", rounds, L))
		bad := false
		for i := 0; i < rounds && !bad; i++ {
			tid := tableIDs[r.Intn(len(tableIDs))]
			seq := randString(r, "ACGT", L)
			t := deepTable(tid)
			var t2 codon.Table
			if p := mon.Try(func() { t2 = t.OptimizeTable(seq) }); p != "" {
				w.Violation(id, fmt.Sprintf("OptimizeTable on a %d-letter sequence, table %d: %s", L, tid, p), map[string]any{"table": tid, "sequence": seq})
				break
			}
			w.Eval(true, mon.Hash64(fmt.Sprint(tid), seq))
			w.Add("churn_calls", 1)
			cnt := countCodons(seq)
			for l, cs := range snapshot(t2).AA {
				for c, wt := range cs {
					if wt != cnt[c] && !bad {
						w.Violation(id, fmt.Sprintf("call %d of a series of %d-letter sequences, table %d: codon %s (%s) has weight %d, it occurs %d times in frame in this call's sequence", i, L, tid, c, l, wt, cnt[c]), map[string]any{"table": tid, "sequence": seq})
						bad = true
					}
				}
			}
			if i%16 == 15 {
				runtime.GC()
			}
		}
		w.End()
	}

	// ---- history clause: complete DFS to depth 4 on two ids
	ids2 := []int{11, 4}
	seqs := []string{"ATGATGATGAAAtttTGA", "AAAAAActgCTGTAA"}
	depth := 4
	type node struct{ ops []c8op }
	var paths [][]c8op
	var dfs func(prefix []c8op)
	dfs = func(prefix []c8op) {
		if len(prefix) > 0 {
			paths = append(paths, append([]c8op(nil), prefix...))
		}
		if len(prefix) == depth {
			return
		}
		// replay the prefix on a scratch world (models only need handle ids/liveness)
		wd := newWorld(pristine)
		resetDefaults(ids2, pristine)
		for _, op := range prefix {
			wd.apply(op)
		}
		for _, op := range wd.enabled(ids2, seqs) {
			dfs(append(prefix, op))
		}
	}
	// the DFS itself is deterministic; enumerate only maximal paths' prefixes once per shard lazily:
	// to keep the cost bounded, shard by the first two operations.
	first := newWorld(pristine)
	firstOps := first.enabled(ids2, seqs) // get(11), get(4)
	pathCount := 0
	for fi, f := range firstOps {
		sid := fmt.Sprintf("dfs-first-%d", fi)
		_ = sid
		wd := newWorld(pristine)
		resetDefaults(ids2, pristine)
		wd.apply(f)
		for si, s := range wd.enabled(ids2, seqs) {
			id := fmt.Sprintf("dfs-%d-%d", fi, si)
			idx++
			if !w.Want(id, idx) {
				continue
			}
			paths = nil
			dfs([]c8op{f, s})
			w.Begin(id, fmt.Sprintf("all histories of length <= %d starting with %v, %v", depth, f, s))
			for pi, ops := range paths {
				runHistory(w, fmt.Sprintf("%s", id), pristine, ids2, ops)
				pathCount++
				_ = pi
			}
			w.End()
			w.Add("exhaustive_histories", int64(len(paths)))
		}
	}
	w.Extra("exhaustive_parts", []string{fmt.Sprintf("all operation sequences of length <= %d over get/re-weight/add/compromise/serialise-parse on table ids %v with 2 coding sequences", depth, ids2)})

	// ---- random histories of length 5..8 on three ids
	nHist := w.Pick(20000, 300000)
	ids3 := []int{1, 11, 2}
	for k := 0; k < nHist; k++ {
		id := fmt.Sprintf("hist-%d", k)
		idx++
		if !w.Want(id, idx) {
			continue
		}
		r := w.Rand(id)
		n := 5 + r.Intn(4)
		resetDefaults(ids3, pristine)
		wd := newWorld(pristine)
		var ops []c8op
		rs := []string{randCase(r, randString(r, "ACGT", 3*(1+r.Intn(40))), 0.3), randString(r, "ACGT", r.Intn(100)), "", "atgAAAtga"}
		for len(ops) < n {
			en := wd.enabled(ids3, rs)
			// bias: fewer binary ops
			op := en[r.Intn(len(en))]
			if (op.kind == "add" || op.kind == "comp") && r.Intn(3) != 0 {
				continue
			}
			if len(wd.handles) > 10 && op.kind != "rw" {
				op = c8op{kind: "rw", a: wd.live()[0], seq: rs[0]}
			}
			ops = append(ops, op)
			wd.apply(op)
		}
		w.Begin(id, fmt.Sprint(ops))
		runHistory(w, id, pristine, ids3, ops)
		w.End()
	}

	// ---- concurrent clause (one shard only: it uses all cores itself)
	cid := "concurrent"
	idx++
	if w.Want(cid, idx) {
		rounds := w.Pick(200, 5000)
		const G = 16
		r := w.Rand(cid)
		w.Begin(cid, fmt.Sprintf("%d rounds x %d goroutines re-weighting tables with pairwise different ids", rounds, G))
		type res struct{ msg string }
		for round := 0; round < rounds; round++ {
			perm := r.Perm(len(tableIDs))[:G]
			seqsG := make([]string, G)
			for g := range seqsG {
				seqsG[g] = randCase(r, randString(r, "ACGT", 3*(5+r.Intn(60))+r.Intn(3)), 0.2)
			}
			var wg, barrier sync.WaitGroup
			barrier.Add(G)
			errs := make([]string, G)
			tabs := make([]codon.Table, G)
			for g := 0; g < G; g++ {
				wg.Add(1)
				go func(g int) {
					defer wg.Done()
					tid := tableIDs[perm[g]]
					verify := func(when string) {
						cnt := countCodons(seqsG[g])
						for _, a := range tabs[g].AminoAcids {
							for _, c := range a.Codons {
								if c.Weight != cnt[c.Triplet] && errs[g] == "" {
									errs[g] = fmt.Sprintf("round %d goroutine %d table %d %s: codon %s weight %d, own sequence has %d", round, g, tid, when, c.Triplet, c.Weight, cnt[c.Triplet])
								}
							}
						}
					}
					if p := mon.Try(func() { tabs[g] = codon.GetCodonTable(tid).OptimizeTable(seqsG[g]) }); p != "" {
						errs[g] = p
					} else {
						verify("right after re-weighting")
					}
					barrier.Done()
					barrier.Wait()
					if errs[g] == "" {
						verify("after all concurrent re-weightings of other ids finished")
					}
				}(g)
			}
			wg.Wait()
			w.Add("concurrent_rounds", 1)
			w.Add("concurrent_reweightings", G)
			for _, e := range errs {
				if e != "" {
					w.Violation(cid, e, nil)
				}
			}
		}
		w.Eval(true, mon.Hash64(cid))
		w.End()
	}
	_ = sort.Strings
	_ = rand.Int
}
