package props

import (
	"bytes"
	"fmt"
	"math/rand"
	"os"
	"runtime"
	"sort"
	"strings"
	"sync/atomic"
	"time"

	"github.com/TimothyStiles/poly/clone"

	"verif/internal/mon"
	"verif/internal/oracle"
)

func init() {
	mon.Register(&mon.Prop{
		ID: "C09", Race: true, Level: "exploration",
		Rule: "designed pools: 1..6 pairwise distinct, non-palindromic, mutually non-complementary junction overhangs, 1..3 alternative fragments per slot (<= 243 rings), each fragment supplied as written or flipped, input order shuffled per call, 0..3 dead-end decoys (leaving the ring, entering the ring from an unmatched overhang, or matching nothing); every pool is ligated by CircularLigate and, rendered as BsaI/BbsI/BtgZI carrier parts (linear, or circular at a random rotation, sometimes two inserts per carrier, random letter case), by GoldenGate, at GOMAXPROCS 1, 2 and 16 with >= 20 calls each under the race detector and 0..8 background goroutines perturbing the scheduler; termination pools: lollipops, rings sharing a junction, random overhang graphs with 2..5 overhangs and 2..8 fragments, the pool of finding D13; non-trivial = pool with >= 2 fragments; distinct by hash of the supplied fragment list",
		Assumptions: []string{
			"oracle: rings known by construction for designed pools, cross-checked against a sequential depth-first enumeration of simple rings (internal/oracle/ligate.go); molecules compared by the harness's own canonical form (least rotation of the lesser strand), never by seqhash",
			"termination is restated as bounded progress: a call may allocate at most 512 MiB + 1000 x the bytes the harness's own terminating enumeration of the same pool builds (cumulative runtime.MemStats.TotalAlloc, sampled every 2 ms), and no snapshot may show every goroutine of the simulation blocked; the wall-clock watchdog (300 s per call) only yields inconclusive",
			"a runaway ligation can spawn goroutines faster than the in-process sampler is scheduled (observed at GOMAXPROCS=1), so the parent process also polls the child's resident memory and stops it at 3 GiB; passing that cap during a journalled call is the same violation (the peak observed in this run is reported as peak_child_resident_mib)",
			"for termination pools, where a correct simulation may or may not report rings that pass one overhang twice, the check demands every simple ring, only closed walks of pool fragments, and no molecule twice",
			"goroutine interleavings are produced, not enumerated: the evidence lists how many distinct arrival orders were observed",
		},
		Shards: tierShards(16, 16), WatchdogSec: tierSecs(1200, 7200), MemCapMiB: 3072,
		MinStats: func(tier string) map[string]int64 {
			return map[string]int64{"calls_circular_ligate": 2000, "calls_golden_gate": 300, "termination_pools": 10, "pools_with_decoy_entering_ring": 5,
				"pools_with_more_than_one_arrival_order": 5, "rings_expected": 100}
		},
		Run: runC09,
	})
}

type c09Pool struct {
	kind        string
	enz         c10Enzyme
	frags       []oracle.LigFragment
	designed    map[string]string // canonical -> spelling; nil when only the enumeration knows
	simple      oracle.LigateResult
	junctions   int
	decoys      int
	entering    int
	flipped     int
	duplicates  int
	invertedAlt int
	relaxed     bool       // termination pool: superset-of-simple + closed-walk rule
	other       *c10Enzyme // a second built-in enzyme whose site lies inside one insert (inert for the pool's own enzyme)
}

// c09Overhangs draws n overhangs of length ov: distinct, non-palindromic, no two reverse complements of each other.
func c09Overhangs(r *rand.Rand, n, ov int) []string {
	var out []string
	for len(out) < n {
		c := randString(r, "ACGT", ov)
		rc := oracle.MustRevComp(c)
		if rc == c {
			continue
		}
		ok := true
		for _, o := range out {
			if o == c || o == rc {
				ok = false
			}
		}
		if ok {
			out = append(out, c)
		}
	}
	return out
}

func c09HasSite(s string, g oracle.Geometry) bool {
	return len(oracle.FindSites(s, false, g)) > 0
}

// c09Interior draws an interior such that fwd+interior+rev holds no recognition site on either strand.
func c09Interior(r *rand.Rand, fwd, rev string, g oracle.Geometry, used map[string]bool) string {
	for {
		in := randString(r, "ACGT", 6+r.Intn(30))
		if r.Intn(6) == 0 {
			// a degenerate stretch inside the insert (NNS/NNK saturation codons, an N run of a gap record)
			at := r.Intn(len(in) + 1)
			in = in[:at] + randString(r, "NSWKNNS", 2+r.Intn(7)) + in[at:]
		}
		if used[in] || used[oracle.MustRevComp(in)] {
			continue
		}
		if c09HasSite(fwd+in+rev, g) {
			continue
		}
		used[in] = true
		return in
	}
}

func c09MaybeFlip(r *rand.Rand, f oracle.LigFragment, p *c09Pool) oracle.LigFragment {
	if r.Intn(5) < 2 {
		p.flipped++
		return oracle.LigFragment{Fwd: oracle.MustRevComp(f.Rev), Seq: oracle.MustRevComp(f.Seq), Rev: oracle.MustRevComp(f.Fwd)}
	}
	return f
}

func c09Designed(r *rand.Rand, full ...bool) *c09Pool {
	eIdx := r.Intn(3)
	p := &c09Pool{kind: "designed", enz: c10Builtins[eIdx]}
	g := p.enz.geo
	k := 1 + r.Intn(6)
	embed := r.Intn(3) == 0
	embedSlot := r.Intn(k)
	max := len(full) > 0 && full[0] // the largest design of the scope: 6 junctions x 3 alternatives = 729 rings
	if max {
		k = 6
		p.kind = "designed-6x3"
	}
	alts := make([]int, k)
	prod := 1
	for i := range alts {
		alts[i] = 1 + r.Intn(3)
		if r.Intn(3) == 0 {
			alts[i] = 1
		}
		if prod*alts[i] > 243 {
			alts[i] = 1
		}
		if max {
			alts[i] = 3
		}
		prod *= alts[i]
	}
	nd := r.Intn(4)
	if r.Intn(3) == 0 || max {
		nd = 0
	}
	ovs := c09Overhangs(r, k+2*nd, g.Ov)
	J := ovs[:k]
	X := ovs[k:]
	used := map[string]bool{}
	slots := make([][]string, k)
	inverted := r.Intn(4) == 0 // one slot offers the same element in both orientations
	for s := 0; s < k; s++ {
		for a := 0; a < alts[s]; a++ {
			in := c09Interior(r, J[s], J[(s+1)%k], g, used)
			if inverted && a == 1 {
				if rc := oracle.MustRevComp(slots[s][0]); rc != slots[s][0] && !c09HasSite(J[s]+rc+J[(s+1)%k], g) {
					in = rc
					p.invertedAlt++
					inverted = false
				}
			}
			if embed && s == embedSlot && a == 0 {
				// a dual-level insert: it carries a site of another enzyme, which the pool's own enzyme ignores
				o := c10Builtins[(eIdx+1+r.Intn(2))%3]
				site := o.geo.Site
				if r.Intn(2) == 0 {
					site = oracle.MustRevComp(site)
				}
				at := r.Intn(len(in) + 1)
				if cand := in[:at] + site + in[at:]; !used[cand] && !used[oracle.MustRevComp(cand)] && !c09HasSite(J[s]+cand+J[(s+1)%k], g) {
					in = cand
					used[in] = true
					p.other = &o
				}
			}
			slots[s] = append(slots[s], in)
			p.frags = append(p.frags, c09MaybeFlip(r, oracle.LigFragment{Fwd: J[s], Seq: in, Rev: J[(s+1)%k]}, p))
		}
	}
	for d := 0; d < nd; d++ {
		var f oracle.LigFragment
		switch r.Intn(3) {
		case 0: // leaves the ring
			f = oracle.LigFragment{Fwd: J[r.Intn(k)], Rev: X[2*d]}
		case 1: // enters the ring from an overhang nothing matches
			f = oracle.LigFragment{Fwd: X[2*d], Rev: J[r.Intn(k)]}
			p.entering++
		default:
			f = oracle.LigFragment{Fwd: X[2*d], Rev: X[2*d+1]}
		}
		f.Seq = c09Interior(r, f.Fwd, f.Rev, g, used)
		p.frags = append(p.frags, c09MaybeFlip(r, f, p))
		p.decoys++
	}
	// the same fragment may be supplied more than once (a second carrier of the same insert, possibly on the
	// other strand): the rings it takes part in are the same molecules and must still be reported once
	if r.Intn(3) == 0 {
		for d := 1 + r.Intn(2); d > 0; d-- {
			f := p.frags[r.Intn(len(p.frags))]
			if r.Intn(2) == 0 {
				f = oracle.LigFragment{Fwd: oracle.MustRevComp(f.Rev), Seq: oracle.MustRevComp(f.Seq), Rev: oracle.MustRevComp(f.Fwd)}
			}
			p.frags = append(p.frags, f)
			p.duplicates++
		}
	}
	// rings by construction
	p.designed = map[string]string{}
	choice := make([]int, k)
	for {
		var sb strings.Builder
		for s := 0; s < k; s++ {
			sb.WriteString(J[s])
			sb.WriteString(slots[s][choice[s]])
		}
		sp := sb.String()
		p.designed[oracle.Canonical(sp, true, true)] = sp
		i := 0
		for i < k {
			choice[i]++
			if choice[i] < alts[i] {
				break
			}
			choice[i] = 0
			i++
		}
		if i == k {
			break
		}
	}
	p.junctions = k
	r.Shuffle(len(p.frags), func(i, j int) { p.frags[i], p.frags[j] = p.frags[j], p.frags[i] })
	return p
}

// c09Graph builds a pool whose overhang graph closes cycles that exclude some seed.
func c09Graph(r *rand.Rand, variant int) *c09Pool {
	p := &c09Pool{enz: c10Builtins[r.Intn(3)], relaxed: true}
	g := p.enz.geo
	used := map[string]bool{}
	add := func(f, rv string) {
		fr := oracle.LigFragment{Fwd: f, Rev: rv}
		fr.Seq = c09Interior(r, f, rv, g, used)
		p.frags = append(p.frags, c09MaybeFlip(r, fr, p))
	}
	switch variant {
	case 0: // the pool of finding D13, literally
		p.kind = "D13"
		p.frags = []oracle.LigFragment{{Fwd: "GTTG", Seq: "AAAAAA", Rev: "CTAT"}, {Fwd: "CTAT", Seq: "CCCCCC", Rev: "GTTG"}, {Fwd: "ACGA", Seq: "GGGGGG", Rev: "GTTG"}}
		p.entering = 1
	case 1: // lollipop: a tail of 1..3 fragments leading into a ring of 1..4
		p.kind = "lollipop"
		k := 1 + r.Intn(4)
		t := 1 + r.Intn(3)
		o := c09Overhangs(r, k+t, g.Ov)
		for s := 0; s < k; s++ {
			add(o[s], o[(s+1)%k])
		}
		for i := 0; i < t; i++ {
			if i == t-1 {
				add(o[k+i], o[r.Intn(k)])
			} else {
				add(o[k+i], o[k+i+1])
			}
		}
		p.entering = 1
	case 2: // two rings sharing one junction
		p.kind = "shared-junction"
		a, b := 1+r.Intn(3), 1+r.Intn(3)
		o := c09Overhangs(r, 1+a+b, g.Ov)
		ring := func(extra []string) {
			seq := append([]string{o[0]}, extra...)
			for i := range seq {
				add(seq[i], seq[(i+1)%len(seq)])
			}
		}
		ring(o[1 : 1+a])
		ring(o[1+a:])
	case 5: // a ring of 4..6 junctions two pairs of which are reverse complements of each other (mirrored designs)
		p.kind = "mirrored"
		k := 4 + r.Intn(3)
		o := c09Overhangs(r, k, g.Ov)
		o[2] = oracle.MustRevComp(o[0])
		o[3] = oracle.MustRevComp(o[1])
		for s := 0; s < k; s++ {
			add(o[s], o[(s+1)%k])
		}
		if r.Intn(2) == 0 {
			add(o[r.Intn(k)], c09Overhangs(r, k+1, g.Ov)[k]) // a dead end
		}
	case 6: // a ring with one or two cassettes flanked by an overhang and its reverse complement: they fit either way round
		p.kind = "invertible"
		nc := 1 + r.Intn(2)
		o := c09Overhangs(r, 2*nc+1, g.Ov)
		// junction order: o0 -> X1 -> rc(X1) -> o1 -> X2 -> rc(X2) -> o0
		var js []string
		for c := 0; c < nc; c++ {
			js = append(js, o[c], o[nc+c], oracle.MustRevComp(o[nc+c]))
		}
		for s := range js {
			add(js[s], js[(s+1)%len(js)])
		}
	case 4: // a ring of 3..5 with a fragment leading back along it, plus 0..2 dead ends
		p.kind = "back-edge"
		k := 3 + r.Intn(3)
		nd := r.Intn(3)
		o := c09Overhangs(r, k+nd, g.Ov)
		for s := 0; s < k; s++ {
			add(o[s], o[(s+1)%k])
		}
		from := 1 + r.Intn(k-1)
		add(o[(from+1)%k], o[from]) // against the direction of the ring
		for d := 0; d < nd; d++ {
			add(o[r.Intn(k)], o[k+d])
		}
	case 3: // A->B, B->C, C->B
		p.kind = "rho"
		o := c09Overhangs(r, 3, g.Ov)
		add(o[0], o[1])
		add(o[1], o[2])
		add(o[2], o[1])
	default:
		p.kind = "random-graph"
		n := 2 + r.Intn(4)
		m := 2 + r.Intn(7)
		o := c09Overhangs(r, n, g.Ov)
		for i := 0; i < m; i++ {
			u, v := r.Intn(n), r.Intn(n)
			if u == v && r.Intn(4) != 0 {
				v = (u + 1) % n
			}
			add(o[u], o[v])
		}
	}
	r.Shuffle(len(p.frags), func(i, j int) { p.frags[i], p.frags[j] = p.frags[j], p.frags[i] })
	return p
}

func c09PoolText(p *c09Pool) string {
	var sb strings.Builder
	fmt.Fprintf(&sb, "%s %s:", p.kind, p.enz)
	for _, f := range p.frags {
		fmt.Fprintf(&sb, " {%s %s %s}", f.Fwd, f.Seq, f.Rev)
	}
	return sb.String()
}

// c09Abutted counts carriers whose two inserts are closed and opened by overlapping sites.
var c09Abutted int

// c09Render lays every fragment of the pool out as an insert between a forward and a backward site.
func c09Render(r *rand.Rand, p *c09Pool, frags []oracle.LigFragment) ([]clone.Part, bool) {
	g := p.enz.geo
	rcSite := oracle.MustRevComp(g.Site)
	var parts []clone.Part
	abutted := 0
	defer func() { c09Abutted += abutted }()
	cassette := func(f oracle.LigFragment) string {
		return g.Site + randString(r, "ACGT", g.Skip) + f.Fwd + f.Seq + f.Rev + randString(r, "ACGT", g.Skip) + rcSite
	}
	for i := 0; i < len(frags); {
		n := 1
		if i+1 < len(frags) && r.Intn(5) == 0 {
			n = 2
		}
		var want []string
		ok := false
		var part clone.Part
		for try := 0; try < 200 && !ok; try++ {
			var sb strings.Builder
			sb.WriteString(randString(r, "ACGT", r.Intn(30)))
			want = want[:0]
			abut := n == 2 && len(g.Site) >= 2 && rcSite[len(rcSite)-2:] == g.Site[:2] && r.Intn(3) == 0
			for j := 0; j < n; j++ {
				c := cassette(frags[i+j])
				if abut && j == 1 {
					// a compact two-insert carrier: the site that closes the first insert and the site that opens the
					// second share their two outer bases (BtgZI: CATCGC / GCGATG -> CATCGCGATG)
					c = c[2:]
				}
				sb.WriteString(c)
				if !(abut && j == 0) {
					sb.WriteString(randString(r, "ACGT", r.Intn(30)))
				}
				want = append(want, frags[i+j].Fwd+"|"+frags[i+j].Seq+"|"+frags[i+j].Rev)
			}
			s := sb.String()
			circ := r.Intn(2) == 0
			if circ {
				s += randString(r, "ACGT", 10+r.Intn(50))
				s = rotate(s, r.Intn(len(s)))
			}
			model, st := oracle.Digest(s, circ, g)
			sort.Strings(want)
			if abut {
				st.SitesOverlap = false // intended here: the two sites overlap in their outer bases only, the cuts are unaffected
			}
			if !st.OK() || !sameStrings(c10Keys(model), want) || len(oracle.FindSites(s, circ, g)) != 2*n {
				continue
			}
			if abut {
				abutted++
			}
			part = clone.Part{Sequence: randCase(r, s, []float64{0, 0, 0.5, 1}[r.Intn(4)]), Circular: circ}
			ok = true
		}
		if !ok {
			return nil, false
		}
		parts = append(parts, part)
		if part.Circular && r.Intn(6) == 0 {
			// the same text once more as a linear part: if read linearly it releases nothing (the stored origin lies
			// inside an insert or between the sites in the wrong order), it must not change the result
			if model, _ := oracle.Digest(part.Sequence, false, g); len(model) == 0 {
				twin := clone.Part{Sequence: part.Sequence, Circular: false}
				if r.Intn(2) == 0 {
					parts = append(parts, twin)
				} else {
					parts = append(parts[:len(parts)-1], twin, part)
				}
			}
		}
		i += n
	}
	return parts, true
}

type c09Run struct {
	out       []clone.Part
	err       error
	panicMsg  string
	exceeded  bool
	allocated uint64
	deadlock  string
	timedOut  bool
	peakG     int
}

var c09BlockedB = [][]byte{[]byte("chan send"), []byte("chan receive"), []byte("semacquire"), []byte("sync."), []byte("select")}

// c09DumpBuf is reused for every goroutine snapshot so that the supervisor itself allocates (almost) nothing:
// its allocations would otherwise count against the monitored call's allocation budget.
var c09DumpBuf = make([]byte, 16<<20)

func c09AllBlocked(dump []byte) (bool, string) {
	n, caller := 0, false
	var states [6]string
	marker := []byte("github.com/TimothyStiles/poly/clone.")
	callerMarker := []byte("clone.CircularLigate(")
	sep := []byte("\n\n")
	for len(dump) > 0 {
		gr := dump
		if i := bytes.Index(dump, sep); i >= 0 {
			gr, dump = dump[:i], dump[i+2:]
		} else {
			dump = nil
		}
		// any goroutine that runs, or was created by, code of package clone belongs to the simulation
		// (a goroutine that has not run yet shows only as "clone.recurseLigate.gowrapN()" / "created by ...")
		if !bytes.Contains(gr, marker) {
			continue
		}
		if bytes.Contains(gr, callerMarker) {
			caller = true
		}
		i := bytes.IndexByte(gr, '[')
		j := bytes.IndexByte(gr, ']')
		if i < 0 || j < i {
			return false, ""
		}
		st := gr[i+1 : j]
		blocked := false
		for _, b := range c09BlockedB {
			if bytes.HasPrefix(st, b) {
				blocked = true
			}
		}
		if !blocked {
			return false, ""
		}
		if n < len(states) {
			states[n] = string(st)
		}
		n++
	}
	if !caller || n == 0 {
		return false, ""
	}
	k := n
	if k > len(states) {
		k = len(states)
	}
	return true, fmt.Sprintf("%d goroutines of the simulation, all blocked: %v", n, states[:k])
}

// c09Supervise runs fn (a call into poly) in its own goroutine and watches its progress.
func c09Supervise(fn func() ([]clone.Part, error), budget uint64) c09Run {
	var run c09Run
	var ms runtime.MemStats
	runtime.ReadMemStats(&ms)
	start := ms.TotalAlloc
	done := make(chan struct{})
	var res struct {
		out      []clone.Part
		err      error
		panicMsg string
	}
	go func() {
		defer close(done)
		res.panicMsg = mon.Try(func() { res.out, res.err = fn() })
	}()
	finished := func() c09Run { // only after done: the call's goroutine no longer writes res
		run.out, run.err, run.panicMsg = res.out, res.err, res.panicMsg
		return run
	}
	select {
	case <-done:
		return finished()
	case <-time.After(2 * time.Millisecond):
	}
	tick := time.NewTicker(2 * time.Millisecond)
	defer tick.Stop()
	samples, consecutive := 0, 0
	lastAlloc := uint64(0)
	t0 := time.Now()
	for {
		select {
		case <-done:
			return finished()
		case <-tick.C:
			samples++
			if g := runtime.NumGoroutine(); g > run.peakG {
				run.peakG = g
			}
			runtime.ReadMemStats(&ms)
			run.allocated = ms.TotalAlloc - start
			if run.allocated > budget {
				run.exceeded = true
				return run
			}
			if samples%50 == 0 {
				n := runtime.Stack(c09DumpBuf, true)
				for n == len(c09DumpBuf) && len(c09DumpBuf) < 1<<29 {
					c09DumpBuf = make([]byte, 2*len(c09DumpBuf))
					n = runtime.Stack(c09DumpBuf, true)
				}
				// "no progress": every goroutine of the simulation parked and (next to) nothing allocated since the last
				// snapshot (the supervisor's own few hundred bytes per snapshot are allowed for)
				if all, desc := c09AllBlocked(c09DumpBuf[:n]); all && run.allocated-lastAlloc < 64<<10 {
					consecutive++
					if consecutive >= 3 {
						run.deadlock = desc
						if os.Getenv("VERIF_DEBUG") != "" {
							fmt.Println(string(c09DumpBuf[:n]))
						}
						return run
					}
				} else {
					consecutive = 0
				}
				lastAlloc = run.allocated
			}
			if time.Since(t0) > 300*time.Second {
				run.timedOut = true
				return run
			}
		}
	}
}

func c09ToPoly(fr []oracle.LigFragment) []clone.Fragment {
	out := make([]clone.Fragment, len(fr))
	for i, f := range fr {
		out[i] = clone.Fragment{Sequence: f.Seq, ForwardOverhang: f.Fwd, ReverseOverhang: f.Rev}
	}
	return out
}

// c09Fatal reports a call that did not come back within its progress budget and ends the child (the runaway
// goroutines of such a call cannot be stopped from outside).
func c09Fatal(w *mon.W, id string, p *c09Pool, run c09Run, how string, budget uint64) {
	if run.exceeded {
		w.Eval(len(p.frags) >= 2, mon.Hash64(c09PoolText(p)))
		w.Violation(id, fmt.Sprintf("%s did not finish within its progress budget: %d bytes allocated, budget %d (the harness's terminating enumeration of the same pool builds %d bytes for %d rings) | pool %s",
			how, run.allocated, budget, p.simple.BytesBuilt, len(p.simple.Rings), clip(c09PoolText(p), 600)), map[string]any{"pool": c09PoolText(p), "how": how})
		w.Extra("aborted_after_runaway_call", id)
		w.FinishAndExit()
	}
	if run.timedOut {
		w.Inconclusive(fmt.Sprintf("%s: wall-clock watchdog (300 s) fired during %s", id, how))
		w.FinishAndExit()
	}
	if run.deadlock != "" {
		w.End()
		w.Eval(len(p.frags) >= 2, mon.Hash64(c09PoolText(p)))
		w.Violation(id, fmt.Sprintf("%s never returns: %s | pool %s", how, run.deadlock, clip(c09PoolText(p), 600)), map[string]any{"pool": c09PoolText(p), "how": how})
		w.FinishAndExit()
	}
}

// c09Judge decides one observed result. It returns the arrival-order signature.
func c09Judge(w *mon.W, id string, p *c09Pool, run c09Run, how string) (sig string, held bool) {
	rep := map[string]any{"pool": c09PoolText(p), "how": how}
	fail := func(msg string) (string, bool) {
		var got []string
		for _, c := range run.out {
			got = append(got, clip(c.Sequence, 200))
		}
		rep["observed"] = got
		w.Violation(id, how+": "+msg+" | pool "+clip(c09PoolText(p), 600), rep)
		return "", false
	}
	if run.panicMsg != "" {
		return fail(run.panicMsg)
	}
	if run.err != nil {
		return fail("error " + run.err.Error())
	}
	expect := p.simple.Rings
	if p.designed != nil {
		expect = p.designed
	}
	var keys []string
	for c := range expect {
		keys = append(keys, c)
	}
	sort.Strings(keys)
	index := map[string]int{}
	for i, c := range keys {
		index[c] = i
	}
	seen := map[string]int{}
	var order []string
	for i, c := range run.out {
		if i == 0 {
			retainCheck(w, id, "construct", c.Sequence, "a construct returned by "+how)
		}
		if !c.Circular {
			return fail(fmt.Sprintf("construct %d is not marked circular", i))
		}
		u := strings.ToUpper(c.Sequence)
		if _, ok := oracle.RevComp(u); !ok || u == "" {
			return fail(fmt.Sprintf("construct %d is not a DNA sequence: %q", i, clip(c.Sequence, 100)))
		}
		cn := oracle.Canonical(u, true, true)
		if j, dup := seen[cn]; dup {
			return fail(fmt.Sprintf("constructs %d and %d are the same molecule up to rotation and strand: %s / %s", j, i, clip(run.out[j].Sequence, 150), clip(c.Sequence, 150)))
		}
		seen[cn] = i
		if k, ok := index[cn]; ok {
			order = append(order, fmt.Sprint(k))
		} else if !p.relaxed {
			return fail(fmt.Sprintf("spurious construct %d: %s is none of the %d rings the overhangs allow", i, clip(c.Sequence, 300), len(expect)))
		} else {
			ok, decided := oracle.IsClosedWalk(u, p.frags, 200000, true)
			if decided && !ok {
				if any, d2 := oracle.IsClosedWalk(u, p.frags, 200000, false); any && d2 {
					return fail(fmt.Sprintf("spurious construct %d: %s can only be laid out from the pool by using a supplied fragment more often than it was supplied", i, clip(c.Sequence, 300)))
				}
				return fail(fmt.Sprintf("construct %d: %s is not a ring of pool fragments joined through shared overhangs", i, clip(c.Sequence, 300)))
			}
			if !decided {
				w.Add("closed_walk_undecided", 1)
			} else {
				w.Add("non_simple_rings_accepted", 1)
			}
			order = append(order, "x"+fmt.Sprintf("%x", mon.Hash64(cn)%65536))
		}
	}
	for _, c := range keys {
		if _, ok := seen[c]; !ok {
			return fail(fmt.Sprintf("missing construct: ring %s (one of %d the overhangs allow) was not returned; %d constructs came back", clip(expect[c], 300), len(expect), len(run.out)))
		}
	}
	return strings.Join(order, ","), true
}

func runC09(w *mon.W) {
	nDesigned := w.Pick(96, 960)
	nTerm := w.Pick(48, 480)
	reps := w.Pick(20, 30)
	procsList := []int{1, 2, 16}
	defer runtime.GOMAXPROCS(runtime.GOMAXPROCS(0))
	idx := 0
	for i := 0; i < nDesigned+nTerm; i++ {
		var id string
		if i < nDesigned {
			id = fmt.Sprintf("designed-%d", i)
		} else {
			id = fmt.Sprintf("termination-%d", i-nDesigned)
		}
		idx++
		if !w.Want(id, idx) {
			continue
		}
		r := w.Rand(id)
		var p *c09Pool
		if i < nDesigned {
			p = c09Designed(r, i%96 == 95)
		} else {
			v := i - nDesigned
			if v > 6 {
				v = 1 + r.Intn(7)
			}
			p = c09Graph(r, v)
		}
		p.simple = oracle.SimpleRings(p.frags)
		if p.designed != nil {
			same := len(p.designed) == len(p.simple.Rings)
			for c := range p.designed {
				if _, ok := p.simple.Rings[c]; !ok {
					same = false
				}
			}
			if !same {
				w.SelfCheckFail(fmt.Sprintf("%s: %d rings by construction, %d by enumeration: %s", id, len(p.designed), len(p.simple.Rings), c09PoolText(p)))
				continue
			}
		}
		budget := uint64(512<<20) + 1000*uint64(p.simple.BytesBuilt)
		nExpected := len(p.simple.Rings)
		orders := map[string]bool{}
		held := true
		calls := 0
		myReps := reps
		if p.relaxed {
			myReps = 5
		}
		if p.kind == "designed-6x3" {
			myReps = 5 // 4,374 ring reports and about 6,500 goroutines per call
		}
		for _, procs := range procsList {
			if !held {
				break
			}
			runtime.GOMAXPROCS(procs)
			for rep := 0; rep < myReps && held; rep++ {
				// input order and scheduler perturbation differ per call
				frags := append([]oracle.LigFragment{}, p.frags...)
				r.Shuffle(len(frags), func(a, b int) { frags[a], frags[b] = frags[b], frags[a] })
				nspin := []int{0, 0, 1, 3, 8}[r.Intn(5)]
				var stop int32
				for s := 0; s < nspin; s++ {
					yield := s%2 == 0
					go func() {
						x := 0
						for atomic.LoadInt32(&stop) == 0 {
							if yield {
								runtime.Gosched()
							} else {
								for k := 0; k < 2000; k++ {
									x += k
								}
							}
						}
						_ = x
					}()
				}
				golden := rep%5 == 4
				how := fmt.Sprintf("CircularLigate GOMAXPROCS=%d call %d spinners=%d", procs, rep, nspin)
				var run c09Run
				if golden {
					parts, ok := c09Render(r, p, frags)
					if !ok {
						w.Add("carrier_rendering_gave_up", 1)
						golden = false
					} else {
						how = fmt.Sprintf("GoldenGate(%s) GOMAXPROCS=%d call %d spinners=%d on %d carrier parts", p.enz.name, procs, rep, nspin, len(parts))
						var sb strings.Builder
						for _, pt := range parts {
							fmt.Fprintf(&sb, " {%s circular=%v}", pt.Sequence, pt.Circular)
						}
						// the same parts may have been through another reaction before: a reaction with a second enzyme
						// whose site lies inside one insert, or a reaction on the first few parts of the same slice
						switch {
						case p.other != nil && rep%2 == 1:
							preHow := fmt.Sprintf("GoldenGate(%s) on the parts later given to %s", p.other.name, how)
							w.Begin(id, preHow+sb.String())
							c09Fatal(w, id, p, c09Supervise(func() ([]clone.Part, error) { return clone.GoldenGate(parts, p.other.name) }, budget+64<<20), preHow, budget+64<<20)
							w.End()
							how += " after a " + p.other.name + " reaction on the same parts"
							w.Add("calls_golden_gate_after_a_reaction_with_a_second_enzyme", 1)
						case len(parts) >= 2 && rep%2 == 0:
							k := 1 + r.Intn(len(parts)-1)
							preHow := fmt.Sprintf("GoldenGate(%s) on the first %d parts of the slice later given whole to %s", p.enz.name, k, how)
							w.Begin(id, preHow+sb.String())
							c09Fatal(w, id, p, c09Supervise(func() ([]clone.Part, error) { return clone.GoldenGate(parts[:k], p.enz.name) }, budget+64<<20), preHow, budget+64<<20)
							w.End()
							how += fmt.Sprintf(" after a reaction on the first %d parts of the same slice", k)
							w.Add("calls_golden_gate_after_a_reaction_on_a_prefix_of_the_slice", 1)
						}
						w.Begin(id, how+sb.String())
						run = c09Supervise(func() ([]clone.Part, error) { return clone.GoldenGate(parts, p.enz.name) }, budget+64<<20)
						w.Add("calls_golden_gate", 1)
						w.Add("carrier_parts", int64(len(parts)))
						for _, pt := range parts {
							if pt.Circular {
								w.Add("carrier_parts_circular", 1)
							}
						}
					}
				}
				if !golden {
					pf := c09ToPoly(frags)
					poolText := c09PoolText(&c09Pool{kind: p.kind, enz: p.enz, frags: frags})
					if rep%5 == 2 && len(pf) >= 2 {
						// the caller ligated the first few fragments of the same slice before ligating all of them
						k := 1 + r.Intn(len(pf)-1)
						preHow := fmt.Sprintf("CircularLigate on the first %d fragments of the slice later given whole to %s", k, how)
						w.Begin(id, preHow+" "+poolText)
						c09Fatal(w, id, p, c09Supervise(func() ([]clone.Part, error) { return clone.CircularLigate(pf[:k]), nil }, budget), preHow, budget)
						w.End()
						how += fmt.Sprintf(" after ligating the first %d fragments of the same slice", k)
						w.Add("calls_circular_ligate_after_a_call_on_a_prefix_of_the_slice", 1)
					}
					w.Begin(id, how+" "+poolText)
					run = c09Supervise(func() ([]clone.Part, error) { return clone.CircularLigate(pf), nil }, budget)
					w.Add("calls_circular_ligate", 1)
				}
				atomic.StoreInt32(&stop, 1)
				calls++
				w.Max("peak_goroutines", int64(run.peakG))
				w.Max("max_bytes_allocated_by_one_call", int64(run.allocated))
				c09Fatal(w, id, p, run, how, budget)
				w.End()
				w.Eval(len(p.frags) >= 2, mon.Hash64(c09PoolText(p), fmt.Sprint(golden)))
				sig, ok := c09Judge(w, id, p, run, how)
				if !ok {
					held = false
					break
				}
				orders[sig] = true
			}
		}
		w.Add("pools", 1)
		w.Add("carriers_with_abutting_sites", int64(c09Abutted))
		c09Abutted = 0
		w.Add("pools_"+p.kind, 1)
		w.Add("rings_expected", int64(nExpected))
		w.Add("fragments_supplied_flipped", int64(p.flipped))
		w.Add("decoy_fragments", int64(p.decoys))
		w.Add("fragments_supplied_twice", int64(p.duplicates))
		w.Add("slots_offering_an_insert_in_both_orientations", int64(p.invertedAlt))
		if p.entering > 0 {
			w.Add("pools_with_decoy_entering_ring", 1)
		}
		if p.relaxed {
			w.Add("termination_pools", 1)
		} else {
			w.Add(fmt.Sprintf("designed_pools_with_%d_junctions", p.junctions), 1)
		}
		w.Add("distinct_arrival_orders_observed", int64(len(orders)))
		w.Max("max_distinct_arrival_orders_of_one_pool", int64(len(orders)))
		w.Max("max_rings_of_one_pool", int64(nExpected))
		if len(orders) > 1 {
			w.Add("pools_with_more_than_one_arrival_order", 1)
		}
		w.SetAdd("gomaxprocs_values", fmt.Sprint(procsList))
		if w.WantSample() && nExpected >= 1 && nExpected <= 4 && len(p.frags) <= 6 {
			var rings []string
			for _, sp := range p.simple.Rings {
				rings = append(rings, sp)
			}
			sort.Strings(rings)
			w.Sample(map[string]any{"case": id, "pool": c09PoolText(p), "rings": rings, "calls": calls, "distinct_arrival_orders": len(orders)})
		}
	}
}
