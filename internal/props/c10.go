package props

import (
	"fmt"
	"math/rand"
	"regexp"
	"sort"
	"strings"

	"github.com/TimothyStiles/poly/clone"

	"verif/internal/mon"
	"verif/internal/oracle"
)

func init() {
	mon.Register(&mon.Prop{
		ID: "C10", Level: "exploration",
		Rule: "layouts: a random A/C/G/T background of 20..3000 bases (scrubbed of accidental sites) with 0..6 recognition sites written at chosen positions and orientations, linear or circular, for BsaI, BbsI, BtgZI (through CutWithEnzymeByName) and custom non-palindromic enzymes (site 5..7, skip 0..14, overhang 2..5); layouts outside the property's restrictions (overlapping occurrences, a paired cut closer than two overhang lengths, coinciding cut points) are redrawn; rotation sweep: every rotation of circular plasmids of 20..300 bases, each in random letter case; concatemers: two to four copies of one 30..200-base unit with 2..4 sites in a row (optionally with A/T spacers between copies), linear or circular, whose digest releases textually identical fragments; non-trivial = at least one site; distinct by hash of (enzyme, stored sequence, topology)",
		Assumptions: []string{
			"oracle: modular-arithmetic model of Type IIS geometry (internal/oracle/digest.go); cross-checked per case against a naive linear evaluator on a rotation whose origin lies outside every site, cut span and fragment, and against the generator's own list of placed sites",
			"the harness's transcription of BsaI GGTCTC(1/5), BbsI GAAGAC(2/6), BtgZI GCGATG(10/14) from REBASE is the specification of the built-in enzymes",
			"fragments are compared as multisets, case-insensitively",
		},
		Shards: tierShards(8, 16), WatchdogSec: tierSecs(600, 3600),
		MinStats: func(string) map[string]int64 {
			return map[string]int64{"fragments_expected": 500, "rotations_checked": 2000, "origin_straddles_site_or_cut": 200, "linear_end_cases": 50, "concatemers_releasing_textually_identical_fragments": 100}
		},
		Run: runC10,
	})
}

type c10Enzyme struct {
	name string // non-empty: built-in, called by name
	geo  oracle.Geometry
}

var c10Builtins = []c10Enzyme{
	{"BsaI", oracle.Geometry{Site: "GGTCTC", Skip: 1, Ov: 4}},
	{"BbsI", oracle.Geometry{Site: "GAAGAC", Skip: 2, Ov: 4}},
	{"BtgZI", oracle.Geometry{Site: "GCGATG", Skip: 10, Ov: 4}},
}

func (e c10Enzyme) String() string {
	if e.name != "" {
		return e.name
	}
	return fmt.Sprintf("custom(%s,skip=%d,ov=%d)", e.geo.Site, e.geo.Skip, e.geo.Ov)
}

func (e c10Enzyme) poly() clone.Enzyme {
	return clone.Enzyme{Name: "custom", RegexpFor: regexp.MustCompile(e.geo.Site), RegexpRev: regexp.MustCompile(oracle.MustRevComp(e.geo.Site)),
		Skip: e.geo.Skip, OverhangLen: e.geo.Ov, RecognitionSite: e.geo.Site}
}

func c10RandEnzyme(r *rand.Rand) c10Enzyme {
	if r.Intn(2) == 0 {
		return c10Builtins[r.Intn(3)]
	}
	for {
		site := randString(r, "ACGT", 5+r.Intn(3))
		if oracle.MustRevComp(site) == site {
			continue
		}
		return c10Enzyme{"", oracle.Geometry{Site: site, Skip: r.Intn(15), Ov: 2 + r.Intn(4)}}
	}
}

// c10LastFragment is the interior of the last fragment poly returned (retained and re-inspected after later calls).
var c10LastFragment string

// c10Cut calls poly and returns the fragment multiset as sorted upper-case keys.
func c10Cut(e c10Enzyme, seq string, circular bool) (keys []string, panicked string, err error) {
	var frs []clone.Fragment
	panicked = mon.Try(func() {
		if e.name != "" {
			frs, err = clone.CutWithEnzymeByName(clone.Part{Sequence: seq, Circular: circular}, true, e.name)
		} else {
			frs = clone.CutWithEnzyme(clone.Part{Sequence: seq, Circular: circular}, true, e.poly())
		}
	})
	c10LastFragment = ""
	c10LastRaw = c10LastRaw[:0]
	for _, f := range frs {
		keys = append(keys, strings.ToUpper(f.ForwardOverhang+"|"+f.Sequence+"|"+f.ReverseOverhang))
		c10LastRaw = append(c10LastRaw, f.ForwardOverhang+"|"+f.Sequence+"|"+f.ReverseOverhang)
		c10LastFragment = f.Sequence
	}
	sort.Strings(keys)
	sort.Strings(c10LastRaw)
	return
}

// c10LastRaw holds the fragments of the last call as poly spelled them (no case folding).
var c10LastRaw []string

func c10Keys(fr []oracle.DigestFragment) []string {
	out := make([]string, len(fr))
	for i, f := range fr {
		out[i] = f.Key()
	}
	sort.Strings(out)
	return out
}

func sameStrings(a, b []string) bool {
	if len(a) != len(b) {
		return false
	}
	for i := range a {
		if a[i] != b[i] {
			return false
		}
	}
	return true
}

type c10Layout struct {
	enz      c10Enzyme
	seq      string // upper case
	circular bool
	placed   []oracle.SiteOcc
}

// c10Place writes sites into a random background and scrubs accidental occurrences.
// ok is false if it could not produce a layout inside the property's restrictions.
func c10Place(r *rand.Rand, e c10Enzyme, L int, circular bool, nsites int, endBias bool) (c10Layout, bool) {
	n := len(e.geo.Site)
	rc := oracle.MustRevComp(e.geo.Site)
	for attempt := 0; attempt < 60; attempt++ {
		if attempt > 0 && attempt%10 == 0 && nsites > 0 {
			nsites--
		}
		b := []byte(randString(r, "ACGT", L))
		covered := make([]bool, L)
		var placed []oracle.SiteOcc
		okPlace := true
		for s := 0; s < nsites; s++ {
			var p int
			found := false
			for try := 0; try < 40 && !found; try++ {
				if circular {
					p = r.Intn(L)
				} else {
					if L-n < 0 {
						break
					}
					p = r.Intn(L - n + 1)
					if endBias && r.Intn(2) == 0 {
						// sites whose cut would need bases beyond the ends
						k := r.Intn(e.geo.Skip + e.geo.Ov + 2)
						if r.Intn(2) == 0 {
							p = k
						} else {
							p = L - n - k
						}
						if p < 0 || p > L-n {
							continue
						}
					}
				}
				found = true
				for i := 0; i < n; i++ {
					if covered[(p+i)%L] {
						found = false
					}
				}
			}
			if !found {
				okPlace = false
				break
			}
			fwd := r.Intn(2) == 0
			pat := e.geo.Site
			if !fwd {
				pat = rc
			}
			for i := 0; i < n; i++ {
				b[(p+i)%L] = pat[i]
				covered[(p+i)%L] = true
			}
			placed = append(placed, oracle.SiteOcc{Pos: p, Forward: fwd})
		}
		if !okPlace {
			continue
		}
		sort.Slice(placed, func(i, j int) bool {
			if placed[i].Pos != placed[j].Pos {
				return placed[i].Pos < placed[j].Pos
			}
			return placed[i].Forward && !placed[j].Forward
		})
		// scrub accidental occurrences
		clean := false
		for it := 0; it < 400; it++ {
			found := oracle.FindSites(string(b), circular, e.geo)
			extra := -1
			for _, f := range found {
				isPlaced := false
				for _, pl := range placed {
					if pl == f {
						isPlaced = true
					}
				}
				if !isPlaced {
					extra = f.Pos
					break
				}
			}
			if extra < 0 {
				clean = len(found) == len(placed)
				break
			}
			var free []int
			for i := 0; i < n; i++ {
				if !covered[(extra+i)%L] {
					free = append(free, (extra+i)%L)
				}
			}
			if len(free) == 0 {
				break
			}
			q := free[r.Intn(len(free))]
			b[q] = "ACGT"[(strings.IndexByte("ACGT", b[q])+1+r.Intn(3))%4]
		}
		if !clean {
			continue
		}
		lay := c10Layout{enz: e, seq: string(b), circular: circular, placed: placed}
		if _, st := oracle.Digest(lay.seq, circular, e.geo); !st.OK() {
			continue
		}
		return lay, true
	}
	return c10Layout{}, false
}

// c10SafeOrigin finds a rotation offset o of a circular layout such that cutting the circle between
// bases o-1 and o splits no site, no site-to-cut span and no fragment; -1 if there is none.
func c10SafeOrigin(lay c10Layout) int {
	L := len(lay.seq)
	g := lay.enz.geo
	n := len(g.Site)
	bad := make([]bool, L)                  // bad[o]: the boundary before base o is inside something
	markInside := func(start, length int) { // boundaries strictly inside [start, start+length)
		for i := 1; i < length; i++ {
			bad[((start+i)%L+L)%L] = true
		}
	}
	type ev struct {
		pos int
		fwd bool
	}
	var evs []ev
	for _, s := range lay.placed {
		if s.Forward {
			markInside(s.Pos, n+g.Skip+g.Ov)
			evs = append(evs, ev{(s.Pos + n + g.Skip) % L, true})
		} else {
			markInside(s.Pos-g.Skip-g.Ov+2*L, n+g.Skip+g.Ov)
			evs = append(evs, ev{((s.Pos-g.Skip)%L + L) % L, false})
		}
	}
	sort.SliceStable(evs, func(i, j int) bool { return evs[i].pos < evs[j].pos })
	for i, e := range evs {
		if !e.fwd {
			continue
		}
		nx := evs[(i+1)%len(evs)]
		if nx.fwd {
			continue
		}
		length := ((nx.pos-e.pos)%L + L) % L
		if length == 0 {
			length = L
		}
		markInside(e.pos, length)
		// a fragment that spans the whole circle leaves no boundary
		if length == L {
			return -1
		}
	}
	for o := 0; o < L; o++ {
		if !bad[o] {
			return o
		}
	}
	return -1
}

// c10Judge compares one poly call with the model. want are the model's keys for the molecule.
func c10Judge(w *mon.W, id string, lay c10Layout, stored string, want []string, what string) bool {
	got, p, err := c10Cut(lay.enz, stored, lay.circular)
	if c10LastFragment != "" {
		retainCheck(w, id, "CutWithEnzyme", c10LastFragment, "a fragment of "+what)
	}
	w.Eval(len(lay.placed) > 0, mon.Hash64(lay.enz.String(), stored, fmt.Sprint(lay.circular)))
	rep := map[string]any{"enzyme": lay.enz.String(), "sequence": stored, "circular": lay.circular, "expected": want, "observed": got}
	if p != "" {
		w.Violation(id, fmt.Sprintf("%s: CutWithEnzyme(%s, circular=%v, %d bases, sites %v) %s", what, lay.enz, lay.circular, len(stored), lay.placed, p), rep)
		return false
	}
	if err != nil {
		w.Violation(id, fmt.Sprintf("%s: CutWithEnzymeByName(%s) returned error %v", what, lay.enz, err), rep)
		return false
	}
	if !sameStrings(got, want) {
		w.Violation(id, fmt.Sprintf("%s: CutWithEnzyme(%s, circular=%v, %d bases, %d sites) returned %d fragments %s, the enzyme geometry gives %d fragments %s",
			what, lay.enz, lay.circular, len(stored), len(lay.placed), len(got), clip(strings.Join(got, " "), 400), len(want), clip(strings.Join(want, " "), 400)), rep)
		return false
	}
	return true
}

func c10SelfCheck(w *mon.W, id string, lay c10Layout, model []oracle.DigestFragment) bool {
	found := oracle.FindSites(lay.seq, lay.circular, lay.enz.geo)
	if len(found) != len(lay.placed) {
		w.SelfCheckFail(fmt.Sprintf("%s: generator placed %v but the scan finds %v", id, lay.placed, found))
		return false
	}
	for i := range found {
		if found[i] != lay.placed[i] {
			w.SelfCheckFail(fmt.Sprintf("%s: generator placed %v but the scan finds %v", id, lay.placed, found))
			return false
		}
	}
	if !lay.circular {
		if simple := oracle.DigestLinearSimple(lay.seq, lay.enz.geo); !sameStrings(c10Keys(simple), c10Keys(model)) {
			w.SelfCheckFail(fmt.Sprintf("%s: digest evaluators disagree on linear %q: %v vs %v", id, lay.seq, c10Keys(model), c10Keys(simple)))
			return false
		}
		w.Add("selfcheck_linear_evaluators_agree", 1)
		return true
	}
	if o := c10SafeOrigin(lay); o >= 0 {
		simple := oracle.DigestLinearSimple(rotate(lay.seq, o), lay.enz.geo)
		if !sameStrings(c10Keys(simple), c10Keys(model)) {
			w.SelfCheckFail(fmt.Sprintf("%s: digest evaluators disagree on circular %q (linearised at %d): %v vs %v", id, lay.seq, o, c10Keys(model), c10Keys(simple)))
			return false
		}
		w.Add("selfcheck_circular_vs_linearised_agree", 1)
	} else {
		w.Add("selfcheck_no_safe_origin", 1)
	}
	return true
}

// c10Straddles reports whether, for the stored rotation k of the layout, some site or its
// site-to-cut span straddles the stored origin.
func c10Straddles(lay c10Layout, k int) bool {
	L := len(lay.seq)
	g := lay.enz.geo
	n := len(g.Site)
	for _, s := range lay.placed {
		var start int
		if s.Forward {
			start = s.Pos
		} else {
			start = s.Pos - g.Skip - g.Ov
		}
		start = ((start-k)%L + L) % L // position in the stored rotation
		if start+n+g.Skip+g.Ov > L {
			return true
		}
	}
	return false
}

func runC10(w *mon.W) {
	idx := 0
	nLay := w.Pick(40000, 5000000)
	for i := 0; i < nLay; i++ {
		id := fmt.Sprintf("layout-%d", i)
		idx++
		if !w.Want(id, idx) {
			continue
		}
		r := w.Rand(id)
		e := c10RandEnzyme(r)
		var L int
		switch r.Intn(4) {
		case 0:
			L = 20 + r.Intn(60)
		case 1:
			L = 20 + r.Intn(300)
		default:
			L = 20 + r.Intn(2981)
		}
		circular := r.Intn(2) == 0
		nsites := r.Intn(7)
		endBias := !circular && r.Intn(3) == 0
		lay, ok := c10Place(r, e, L, circular, nsites, endBias)
		if !ok {
			w.Add("layouts_redrawn_out", 1)
			continue
		}
		model, _ := oracle.Digest(lay.seq, circular, e.geo)
		if !c10SelfCheck(w, id, lay, model) {
			continue
		}
		want := c10Keys(model)
		stored := randCase(r, lay.seq, []float64{0, 0.5, 1}[r.Intn(3)])
		if r.Intn(6) == 0 {
			stored = caseEdges(r, lay.seq)
		}
		if r.Intn(4) == 0 && len(lay.placed) > 0 {
			// annotation-style case: upper case throughout, only the recognition sites (or one of them) in lower case
			b := []byte(lay.seq)
			only := -1
			if r.Intn(2) == 0 {
				only = r.Intn(len(lay.placed))
			}
			for si, occ := range lay.placed {
				if only >= 0 && si != only {
					continue
				}
				for j := 0; j < len(e.geo.Site); j++ {
					q := (occ.Pos + j) % len(b)
					if b[q] >= 'A' && b[q] <= 'Z' {
						b[q] += 32
					}
				}
			}
			stored = string(b)
			w.Add("layouts_with_only_the_sites_in_lower_case", 1)
		}
		w.Begin(id, fmt.Sprintf("%s circular=%v %s", e, circular, stored))
		held := c10Judge(w, id, lay, stored, want, "layout")
		if held && stored != lay.seq {
			// letter case is irrelevant: the upper-case spelling must give the same multiset, letter for letter
			// (an overhang reported in the spelling of the input would no longer match its partner's)
			rawStored := append([]string(nil), c10LastRaw...)
			held = c10Judge(w, id, lay, lay.seq, want, "upper-case spelling of the same layout")
			if held && !sameStrings(rawStored, c10LastRaw) {
				w.Violation(id, fmt.Sprintf("letter case of the part changes the reported fragments: CutWithEnzyme(%s, circular=%v) on %q returned %s, on the upper-case spelling %s", lay.enz, lay.circular, clip(stored, 80), clip(strings.Join(rawStored, " "), 300), clip(strings.Join(c10LastRaw, " "), 300)),
					map[string]any{"enzyme": lay.enz.String(), "sequence": stored, "circular": lay.circular})
				held = false
			}
			w.Add("spellings_compared_letter_for_letter", 1)
		}
		if held && circular && L <= 3000 {
			// a few random rotations of every circular layout (the sweep below is exhaustive for small ones)
			for j := 0; j < 4; j++ {
				k := r.Intn(L)
				if c10Straddles(lay, k) {
					w.Add("origin_straddles_site_or_cut", 1)
				}
				w.Add("rotations_checked", 1)
				if !c10Judge(w, id, lay, rotate(stored, k), want, fmt.Sprintf("rotation by %d", k)) {
					break
				}
			}
		}
		w.End()
		w.Add("fragments_expected", int64(len(want)))
		w.Add(fmt.Sprintf("layouts_with_%d_sites", len(lay.placed)), 1)
		if circular {
			w.Add("layouts_circular", 1)
		} else {
			w.Add("layouts_linear", 1)
			if endBias {
				w.Add("linear_end_cases", 1)
			}
		}
		w.SetAdd("enzymes", clip(e.String(), 60))
		w.Max("max_length", int64(L))
		if w.WantSample() && L < 120 && len(want) > 0 {
			w.Sample(map[string]any{"case": id, "enzyme": e.String(), "circular": circular, "sequence": stored, "sites": fmt.Sprint(lay.placed), "fragments": want})
		}
	}

	// every rotation of small plasmids
	nPl := w.Pick(4000, 300000)
	for i := 0; i < nPl; i++ {
		id := fmt.Sprintf("plasmid-%d", i)
		idx++
		if !w.Want(id, idx) {
			continue
		}
		r := w.Rand(id)
		e := c10RandEnzyme(r)
		L := 20 + r.Intn(281)
		if r.Intn(3) == 0 {
			L = 20 + r.Intn(60)
		}
		nsites := 1 + r.Intn(6)
		lay, ok := c10Place(r, e, L, true, nsites, false)
		if !ok {
			w.Add("layouts_redrawn_out", 1)
			continue
		}
		model, _ := oracle.Digest(lay.seq, true, e.geo)
		if !c10SelfCheck(w, id, lay, model) {
			continue
		}
		want := c10Keys(model)
		w.Begin(id, fmt.Sprintf("%s circular=true every rotation of %s", e, lay.seq))
		for k := 0; k < L; k++ {
			rot := rotate(lay.seq, k)
			if k%7 == 3 {
				// the model itself must be rotation independent
				m2, _ := oracle.Digest(rot, true, e.geo)
				if !sameStrings(c10Keys(m2), want) {
					w.SelfCheckFail(fmt.Sprintf("%s: the digest model is not rotation independent at offset %d", id, k))
					break
				}
			}
			if c10Straddles(lay, k) {
				w.Add("origin_straddles_site_or_cut", 1)
			}
			w.Add("rotations_checked", 1)
			if !c10Judge(w, id, lay, randCase(r, rot, []float64{0, 0, 0.5, 1}[r.Intn(4)]), want, fmt.Sprintf("rotation by %d of a %d-base plasmid", k, L)) {
				break
			}
		}
		w.End()
		w.Add("plasmids_all_rotations", 1)
		w.Add("fragments_expected", int64(len(want)))
		w.Add(fmt.Sprintf("layouts_with_%d_sites", len(lay.placed)), 1)
		w.SetAdd("enzymes", clip(e.String(), 60))
	}
	// concatemers: the same unit two to four times in a row (tandem cassettes, arrays of one spacer flanked by sites),
	// so that the digest releases textually identical fragments, adjacent or not; each copy is a fragment of its own
	nCat := w.Pick(3000, 150000)
	for i := 0; i < nCat; i++ {
		id := fmt.Sprintf("concatemer-%d", i)
		idx++
		if !w.Want(id, idx) {
			continue
		}
		r := w.Rand(id)
		e := c10RandEnzyme(r)
		unit, ok := c10Place(r, e, 30+r.Intn(171), false, 2+r.Intn(3), false)
		if !ok {
			w.Add("layouts_redrawn_out", 1)
			continue
		}
		copies := 2 + r.Intn(3)
		seq := ""
		for c := 0; c < copies; c++ {
			seq += unit.seq
			if r.Intn(3) == 0 && c < copies-1 {
				// a different spacer between two copies: the equal fragments are then not neighbours of equal neighbours
				seq += randString(r, "AT", 1+r.Intn(12))
			}
		}
		circular := r.Intn(2) == 0
		lay := c10Layout{enz: e, seq: seq, circular: circular, placed: oracle.FindSites(seq, circular, e.geo)}
		model, st := oracle.Digest(seq, circular, e.geo)
		if !st.OK() || len(lay.placed) != copies*len(unit.placed) {
			w.Add("layouts_redrawn_out", 1)
			continue
		}
		if !c10SelfCheck(w, id, lay, model) {
			continue
		}
		want := c10Keys(model)
		repeated := 0
		for j := 1; j < len(want); j++ {
			if want[j] == want[j-1] {
				repeated++
			}
		}
		w.Begin(id, fmt.Sprintf("%s circular=%v %d copies of a %d-base unit: %s", e, circular, copies, len(unit.seq), seq))
		held := c10Judge(w, id, lay, randCase(r, seq, []float64{0, 0, 0.5, 1}[r.Intn(4)]), want, fmt.Sprintf("concatemer of %d copies of a %d-base unit", copies, len(unit.seq)))
		if held && circular {
			k := r.Intn(len(seq))
			w.Add("rotations_checked", 1)
			c10Judge(w, id, lay, rotate(seq, k), want, fmt.Sprintf("rotation by %d of a concatemer of %d copies of a %d-base unit", k, copies, len(unit.seq)))
		}
		w.End()
		w.Add("concatemers", 1)
		if repeated > 0 {
			w.Add("concatemers_releasing_textually_identical_fragments", 1)
		}
		w.Add("fragments_expected", int64(len(want)))
	}
	w.Extra("exhaustive_parts", []string{"every rotation of every generated circular plasmid of 20..300 bases"})
	w.Extra("exhaustive", false)
}
