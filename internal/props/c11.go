package props

import (
	"fmt"
	"sort"
	"strings"

	"github.com/TimothyStiles/poly/checks"
	"github.com/TimothyStiles/poly/transform"
	"github.com/TimothyStiles/poly/transform/variants"

	"verif/internal/mon"
	"verif/internal/oracle"
)

func init() {
	mon.Register(&mon.Prop{
		ID: "C11", Level: "exploration",
		Rule:        "complete enumeration of strings over the 15 IUPAC DNA codes (upper case to the stated length, mixed case to a shorter length) plus random IUPAC strings in random case up to 10^4 letters and a small set containing U; every split point of every enumerated string is used for the concatenation clause; non-trivial = length >= 2 and at least two different letters; distinct by hash of the string",
		Assumptions: []string{"oracle: complement of a code = code of the set of complementary bases (NC-IUB 1984 base sets), expansion = Cartesian product of the base sets; written without reference to poly's tables"},
		Shards:      tierShards(8, 16), WatchdogSec: tierSecs(600, 3600),
		Run: runC11,
	})
}

func sameCasePatternReversed(s, rc string) bool {
	n := len(s)
	for i := 0; i < n; i++ {
		a := s[i] >= 'a' && s[i] <= 'z'
		b := rc[n-1-i] >= 'a' && rc[n-1-i] <= 'z'
		if a != b {
			return false
		}
	}
	return true
}

func reverseBytes(s string) string {
	b := []byte(s)
	for i, j := 0, len(b)-1; i < j; i, j = i+1, j-1 {
		b[i], b[j] = b[j], b[i]
	}
	return string(b)
}

// c11Judge checks every clause on one string. splits: check all split points; expand: check expansion.
func c11Judge(w *mon.W, caseID, s string, allSplits, expand, hasU bool) {
	w.Eval(len(s) >= 2 && !allSame(s), mon.Hash64(s))
	fail := func(format string, a ...any) {
		w.Violation(caseID, fmt.Sprintf(format, a...), map[string]any{"input": s})
	}
	want, ok := oracle.RevComp(s)
	if !ok {
		w.SelfCheckFail("generator produced a non-IUPAC string: " + s)
		return
	}
	var rc, comp, rev string
	if p := mon.Try(func() {
		rc = transform.ReverseComplement(s)
		comp = transform.Complement(s)
		rev = transform.Reverse(comp)
	}); p != "" {
		fail("reverse complement of %q: %s", clip(s, 100), p)
		return
	}
	retainCheck(w, caseID, "ReverseComplement", rc, "transform.ReverseComplement of "+clip(s, 60))
	retainCheck(w, caseID, "Complement", comp, "transform.Complement of "+clip(s, 60))
	retainCheck(w, caseID, "Reverse", rev, "transform.Reverse of the complement of "+clip(s, 60))
	if len(rc) != len(s) {
		fail("ReverseComplement(%q) has length %d, input %d", clip(s, 100), len(rc), len(s))
		return
	}
	if rc != want {
		fail("ReverseComplement(%q) = %q, IUPAC base-set semantics give %q", clip(s, 100), clip(rc, 100), clip(want, 100))
		return
	}
	if !sameCasePatternReversed(s, rc) {
		fail("ReverseComplement(%q) = %q does not preserve letter case position by position", clip(s, 100), clip(rc, 100))
	}
	if rev != rc {
		fail("Reverse(Complement(%q)) = %q differs from ReverseComplement = %q", clip(s, 100), clip(rev, 100), clip(rc, 100))
	}
	if reverseBytes(comp) != rc {
		fail("Complement(%q) = %q is not the reverse of the reverse complement", clip(s, 100), clip(comp, 100))
	}
	if !hasU {
		if back := transform.ReverseComplement(rc); back != s {
			fail("ReverseComplement is not an involution on %q: got back %q", clip(s, 100), clip(back, 100))
		}
	}
	// palindrome clause
	if got := checks.IsPalindromic(s); got != (s == want) {
		fail("IsPalindromic(%q) = %v but the string %s its reverse complement %q", clip(s, 100), got, map[bool]string{true: "equals", false: "differs from"}[s == want], clip(want, 100))
	}
	// concatenation clause
	splits := []int{}
	if allSplits {
		for k := 0; k <= len(s); k++ {
			splits = append(splits, k)
		}
	} else if len(s) > 0 {
		splits = append(splits, len(s)/3, len(s)/2, len(s)-1)
	}
	for _, k := range splits {
		a, b := s[:k], s[k:]
		if got := transform.ReverseComplement(b) + transform.ReverseComplement(a); got != rc {
			fail("rc(a+b) != rc(b)+rc(a) for a=%q b=%q: %q vs %q", clip(a, 60), clip(b, 60), clip(rc, 100), clip(got, 100))
			break
		}
	}
	w.Add("split_points_checked", int64(len(splits)))
	if !expand || hasU {
		return
	}
	// expansion clause
	wantExp := oracle.Expand(s)
	var got []string
	var err error
	if p := mon.Try(func() { got, err = variants.AllVariantsIUPAC(s) }); p != "" {
		fail("AllVariantsIUPAC(%q): %s", clip(s, 100), p)
		return
	}
	if err != nil {
		fail("AllVariantsIUPAC(%q) returned error %v for a valid IUPAC string", clip(s, 100), err)
		return
	}
	w.Add("expansions_checked", 1)
	w.Add("expanded_sequences_compared", int64(len(got)))
	gs := append([]string(nil), got...)
	sort.Strings(gs)
	if len(gs) != len(wantExp) {
		fail("AllVariantsIUPAC(%q) returned %d sequences, the code sets give %d (missing/duplicate/extra)", clip(s, 100), len(gs), len(wantExp))
		return
	}
	for i := range gs {
		if gs[i] != wantExp[i] {
			fail("AllVariantsIUPAC(%q): sorted element %d is %q, expected %q", clip(s, 100), i, gs[i], wantExp[i])
			return
		}
	}
	// commutes with reverse complement
	var gotRC []string
	if p := mon.Try(func() { gotRC, err = variants.AllVariantsIUPAC(rc) }); p != "" || err != nil {
		fail("AllVariantsIUPAC(rc(%q)=%q): %s %v", clip(s, 100), clip(rc, 100), p, err)
		return
	}
	a := make([]string, len(got))
	for i, v := range got {
		a[i] = oracle.MustRevComp(v)
	}
	sort.Strings(a)
	b := append([]string(nil), gotRC...)
	sort.Strings(b)
	if strings.Join(a, ",") != strings.Join(b, ",") {
		fail("expansion does not commute with reverse complement on %q: expand(rc(s)) != rc(expand(s))", clip(s, 100))
	}
}

func runC11(w *mon.W) {
	upper := oracle.IUPACCodes
	mixed := upper + strings.ToLower(upper)
	type space struct {
		alpha string
		maxN  int
		name  string
	}
	spaces := []space{{upper, w.Pick(4, 5), "upper-case"}, {mixed, w.Pick(2, 3), "mixed-case"}}
	const blk = 2048
	idx := 0
	var parts []string
	for _, sp := range spaces {
		parts = append(parts, fmt.Sprintf("all %s strings over the 15 IUPAC codes of length 0..%d, all split points, with expansion", sp.name, sp.maxN))
		for n := 0; n <= sp.maxN; n++ {
			total := ipow(len(sp.alpha), n)
			for start := int64(0); start < total; start += blk {
				id := fmt.Sprintf("enum-%s-n%d-b%d", sp.name, n, start/blk)
				idx++
				if !w.Want(id, idx) {
					continue
				}
				end := start + blk
				if end > total {
					end = total
				}
				w.Begin(id, fmt.Sprintf("strings %d..%d of length %d over %s", start, end-1, n, sp.alpha))
				for i := start; i < end; i++ {
					c11Judge(w, id, nthString(sp.alpha, n, i), true, true, false)
				}
				w.End()
				w.Add("enumerated_strings", end-start)
			}
		}
	}
	w.Extra("exhaustive_parts", parts)
	nRand := w.Pick(30000, 300000)
	for i := 0; i < nRand; i++ {
		id := fmt.Sprintf("rand-%d", i)
		idx++
		if !w.Want(id, idx) {
			continue
		}
		r := w.Rand(id)
		var n int
		switch r.Intn(3) {
		case 0:
			n = r.Intn(30)
		case 1:
			n = r.Intn(500)
		default:
			n = r.Intn(10001)
		}
		alpha := upper
		if r.Intn(3) == 0 {
			alpha = "ACGT" // mostly concrete, so that expansions stay small
		}
		s := randCase(r, randString(r, alpha, n), r.Float64())
		if i%4 == 3 && n > 0 {
			if n > 600 {
				n = 65 + r.Intn(536) // expanding is quadratic in poly: keep length x variants small
			}
			// sparse ambiguity: a long concrete sequence with 1..6 ambiguity codes at random positions (also
			// beyond any word-sized position bitmap), so that the expansion stays small enough to compare
			b := []byte(randString(r, "ACGT", n))
			for k := 1 + r.Intn(6); k > 0; k-- {
				pos := r.Intn(n)
				if r.Intn(3) == 0 {
					pos = n - 1 - r.Intn(1+n/8)
				}
				b[pos] = "RYSWKMBDHVN"[r.Intn(11)]
			}
			s = randCase(r, string(b), []float64{0, 0, 0.5}[r.Intn(3)])
			w.Add("sparse_ambiguity_strings", 1)
		}
		if i%25 == 24 {
			// large expansions: 7..9 three-fold codes (and at most one two-fold code) give 2,187..39,366 variants
			var b []byte
			for k := 7 + r.Intn(3); k > 0; k-- {
				b = append(b, "BDHV"[r.Intn(4)])
			}
			if r.Intn(2) == 0 {
				b = append(b, "RYSWKM"[r.Intn(6)])
			}
			for k := r.Intn(5); k > 0; k-- {
				b = append(b, "ACGT"[r.Intn(4)])
			}
			r.Shuffle(len(b), func(x, y int) { b[x], b[y] = b[y], b[x] })
			s = randCase(r, string(b), []float64{0, 0, 0.5}[r.Intn(3)])
			n = len(s)
			w.Add("large_expansions", 1)
		}
		switch {
		case i%20 == 7 && n > 0:
			// runs: stretches of one code (gaps of N, homopolymers) of 1..60 letters, case drawn letter by letter
			var sb strings.Builder
			for sb.Len() < n {
				c := upper[r.Intn(len(upper))]
				if r.Intn(2) == 0 {
					c = 'N'
				}
				run := 1 + r.Intn(60)
				if r.Intn(6) == 0 {
					run = []int{100, 255, 256, 257, 300, 512, 200 + r.Intn(900)}[r.Intn(7)] // scaffold gaps, long homopolymer tracts
				}
				sb.WriteString(strings.Repeat(string(c), run))
			}
			if sb.Len() > n && r.Intn(2) == 0 {
				n = sb.Len()
				if n > 10000 {
					n = 10000
				}
			}
			s = randCase(r, sb.String()[:n], []float64{0.5, 0.5, 0.1}[r.Intn(3)])
			w.Add("strings_made_of_runs", 1)
		case i%20 == 13:
			// an odd-length near-palindrome: reverse-complementary arms around one centre base
			x := randString(r, alpha, 1+r.Intn(100))
			s = x + string(upper[r.Intn(len(upper))]) + oracle.MustRevComp(x)
			s = randCase(r, s, []float64{0, 0, 1}[r.Intn(3)])
			n = len(s)
			w.Add("odd_near_palindromes", 1)
		}
		bigExpand := i%25 == 24
		switch {
		case i%20 == 3:
			// a palindrome (or a palindrome with one letter changed) over plain A/C/G/T in one case, at every even
			// length 2..128 in turn: restriction sites, k-mer screens at the word sizes 16, 32, 64
			half := 1 + (i/20)%64
			x := randString(r, "ACGT", half)
			s = x + oracle.MustRevComp(x)
			if r.Intn(3) == 0 {
				b := []byte(s)
				pos := []int{0, len(b) - 1, r.Intn(len(b))}[r.Intn(3)]
				b[pos] = "ACGT"[(strings.IndexByte("ACGT", b[pos])+1+r.Intn(3))%4]
				s = string(b)
			}
			if r.Intn(3) == 0 {
				s = strings.ToLower(s)
			}
			n = len(s)
			w.Add("plain_palindromes_at_every_even_length", 1)
		case i%20 == 17:
			// a periodic degenerate design: one unit holding ambiguity codes repeated (Gly/Ser linkers, NNK cassettes),
			// 2^6..2^16 variants
			unit := []string{"GGN", "NNK", "GGS", "GGSGGN", "RYA", "ACGTRCGTACGT", "NNKGGC", "TCNGGN", "AARGAY"}[r.Intn(9)]
			per := oracle.ExpansionSize(unit, 1<<20)
			reps := 2
			for total := per * per; reps < 12 && total*per <= 65536; total *= per {
				reps++
			}
			reps = 2 + r.Intn(reps-1)
			s = randCase(r, strings.Repeat(unit, reps)+randString(r, "ACGT", r.Intn(4)), []float64{0, 0, 0.5}[r.Intn(3)])
			if r.Intn(2) == 0 {
				s = randString(r, "ACGT", r.Intn(13)) + s
			}
			n = len(s)
			bigExpand = true
			w.Add("periodic_degenerate_designs", 1)
		}
		hasU := false
		if r.Intn(10) == 0 && n > 0 && i%20 != 3 && i%20 != 17 {
			b := []byte(s)
			b[r.Intn(n)] = "Uu"[r.Intn(2)]
			s = string(b)
			hasU = true
			w.Add("strings_with_U", 1)
		}
		// make some palindromes
		if !hasU && r.Intn(8) == 0 && i%20 != 3 && i%20 != 17 {
			s = s + oracle.MustRevComp(s)
			w.Add("constructed_palindromes", 1)
		}
		if i%7 == 5 {
			s = caseEdges(r, s)
		}
		expand := oracle.ExpansionSize(s, 4096) <= 4096 || (bigExpand && oracle.ExpansionSize(s, 70000) <= 70000)
		w.Begin(id, s)
		c11Judge(w, id, s, n <= 60, expand, hasU)
		w.End()
		w.Max("max_length", int64(len(s)))
		if w.WantSample() && len(s) > 3 && len(s) < 40 {
			w.Sample(map[string]any{"case": id, "input": s, "reverse_complement": oracle.MustRevComp(s), "expansion_size": oracle.ExpansionSize(s, 1<<30)})
		}
	}
}
