package props

import (
	"fmt"
	"strings"

	"github.com/TimothyStiles/poly/seqhash"

	"verif/internal/mon"
	"verif/internal/oracle"
)

func init() {
	mon.Register(&mon.Prop{
		ID: "C12", Level: "exploration",
		Rule:        "complete enumeration of all strings over alphabets of size 2/3/4 up to the stated lengths and over the byte alphabets {0x80,0xff} and {0xc3,0xa9,A} (strings that are not valid UTF-8) and {A, LF, CR} (every rotation of every string is itself in the enumeration) plus structured long strings (powers, powers with one letter changed, Fibonacci and Thue-Morse words, runs, tied tracts of the least letter, truncated tandem arrays, random; strings whose unique least tract stands at a chosen index as written - first, last, quarter, middle +/-1, 65536 - half of them longer than 65,536 bytes; alphabets with line-end and blank bytes) with a random rotation of each; non-trivial = length >= 2 and not all letters equal; distinct by hash of the string",
		Assumptions: []string{"oracle: brute force over all rotations for n<=64, independent two-pointer minimal-rotation scan above; both cross-checked on every short string"},
		Shards:      tierShards(8, 16), WatchdogSec: tierSecs(600, 3600),
		Run: runC12,
	})
}

func c12Judge(w *mon.W, caseID, s string) {
	var got string
	p := mon.Try(func() { got = seqhash.RotateSequence(s) })
	nontriv := len(s) >= 2 && !allSame(s)
	w.Eval(nontriv, mon.Hash64(s))
	if p != "" {
		w.Violation(caseID, fmt.Sprintf("RotateSequence(%q) %s", clip(s, 200), p), map[string]any{"input": s})
		return
	}
	retainCheck(w, caseID, "RotateSequence", got, "seqhash.RotateSequence of "+clip(s, 60))
	want := oracle.LeastRotation(s)
	if len(s) <= 64 {
		if tp := oracle.LeastRotationTwoPointer(s); tp != want {
			w.SelfCheckFail(fmt.Sprintf("least rotation oracles disagree on %q: brute %q two-pointer %q", s, want, tp))
			return
		}
	}
	if got != want {
		msg := fmt.Sprintf("RotateSequence(%q) = %q, least rotation is %q", clip(s, 200), clip(got, 200), clip(want, 200))
		if !oracle.IsRotation(s, got) {
			msg += " (result is not even a rotation of the input)"
		}
		w.Violation(caseID, msg, map[string]any{"input": s, "got": got, "want": want})
	}
}

func fibWord(n int) string {
	a, b := "b", "a"
	for len(b) < n {
		a, b = b, b+a
	}
	return b[:n]
}

func thueMorse(n int) string {
	b := make([]byte, n)
	for i := range b {
		x, c := i, 0
		for x > 0 {
			c ^= x & 1
			x >>= 1
		}
		b[i] = "ab"[c]
	}
	return string(b)
}

func c12AlphaName(a string) string {
	for i := 0; i < len(a); i++ {
		if a[i] >= 0x80 || a[i] < 0x20 {
			return fmt.Sprintf("x%x", a)
		}
	}
	return a
}

func runC12(w *mon.W) {
	type space struct {
		alpha string
		maxN  int
	}
	// the last two alphabets are bytes that are not text: two bytes that never form valid UTF-8, and a lead
	// byte, a continuation byte and a letter (some strings over them are valid UTF-8, most are not)
	spaces := []space{{"aB", w.Pick(17, 21)}, {"ACG", w.Pick(11, 13)}, {"ACGT", w.Pick(9, 11)}, {"\x80\xff", w.Pick(13, 17)}, {"\xc3\xa9A", w.Pick(9, 11)}, {"A\n\r", w.Pick(9, 11)}}
	const blk = 8192
	idx := 0
	var parts []string
	for _, sp := range spaces {
		parts = append(parts, fmt.Sprintf("all strings over %q of length 0..%d", sp.alpha, sp.maxN))
		for n := 0; n <= sp.maxN; n++ {
			total := ipow(len(sp.alpha), n)
			for start := int64(0); start < total; start += blk {
				id := fmt.Sprintf("enum-%s-n%d-b%d", c12AlphaName(sp.alpha), n, start/blk)
				idx++
				if !w.Want(id, idx) {
					continue
				}
				w.Begin(id, fmt.Sprintf("strings %d..%d of length %d over %q", start, start+blk-1, n, sp.alpha))
				end := start + blk
				if end > total {
					end = total
				}
				for i := start; i < end; i++ {
					c12Judge(w, id, nthString(sp.alpha, n, i))
				}
				w.End()
				w.Add("enumerated_strings", end-start)
			}
		}
	}
	w.Extra("exhaustive_parts", parts)
	w.Extra("exhaustive", false)

	// structured long strings
	nStruct := w.Pick(4000, 60000)
	maxLen := w.Pick(100000, 1000000)
	for i := 0; i < nStruct; i++ {
		id := fmt.Sprintf("struct-%d", i)
		idx++
		if !w.Want(id, idx) {
			continue
		}
		r := w.Rand(id)
		alpha := []string{"AB", "ACGT", "ACGTRYSWKMBDHVN", "ab\x00\xff", "ACGTacgt", "\x80\xff", "\xc3\xa9\xbf\xfe", "ACGT\n", "AT\r\n \t"}[r.Intn(9)]
		var n int
		switch r.Intn(4) {
		case 0:
			n = 1 + r.Intn(64)
		case 1:
			n = 1 + r.Intn(2000)
		case 2:
			n = 1 + r.Intn(20000)
		default:
			n = 1 + r.Intn(maxLen)
		}
		var s, kind string
		switch r.Intn(7) {
		case 0:
			kind = "power"
			u := randString(r, alpha, 1+r.Intn(12))
			s = strings.Repeat(u, n/len(u)+1)[:n]
		case 1:
			kind = "power-one-changed"
			u := randString(r, alpha, 1+r.Intn(12))
			b := []byte(strings.Repeat(u, n/len(u)+1)[:n])
			b[r.Intn(n)] = alpha[r.Intn(len(alpha))]
			s = string(b)
		case 2:
			kind = "fibonacci"
			s = fibWord(n)
		case 3:
			kind = "thue-morse"
			s = thueMorse(n)
		case 4:
			kind = "runs"
			var sb strings.Builder
			for sb.Len() < n {
				sb.WriteString(strings.Repeat(string(alpha[r.Intn(len(alpha))]), 1+r.Intn(50)))
			}
			s = sb.String()[:n]
		case 5:
			kind = "random"
			s = randString(r, alpha, n)
		default:
			kind = "power-of-fibonacci"
			u := fibWord(2 + r.Intn(30))
			s = strings.Repeat(u, n/len(u)+1)[:n]
		}
		if i%9 == 4 {
			// tied tracts: the least letter of the alphabet stands in two or three tracts of one and the same length
			// (4..70) with different texts in between, and a truncated tandem array (a unit repeated, cut mid-unit)
			least := alpha[0]
			for j := 1; j < len(alpha); j++ {
				if alpha[j] < least {
					least = alpha[j]
				}
			}
			rest := strings.ReplaceAll(alpha, string(least), "")
			if r.Intn(4) == 0 && rest != "" {
				kind = "interrupted-run"
				m := 2 + r.Intn(300)
				b := []byte(strings.Repeat(string(alpha[r.Intn(len(alpha))]), m))
				pos := []int{m - 1, m - 2, m - 3, 0, 1, 2, r.Intn(m)}[r.Intn(7)]
				if pos < 0 {
					pos = 0
				}
				if pos >= m {
					pos = m - 1
				}
				for {
					c := alpha[r.Intn(len(alpha))]
					if c != b[0] || len(alpha) == 1 {
						b[pos] = c
						break
					}
				}
				s = string(b)
			} else if r.Intn(3) == 0 || rest == "" {
				kind = "truncated-tandem-array"
				u := randString(r, alpha, 2+r.Intn(9))
				reps := 2 + r.Intn(60)
				s = strings.Repeat(u, reps) + u[:r.Intn(len(u))]
			} else {
				kind = "tied-tracts"
				t := strings.Repeat(string(least), 4+r.Intn(67))
				var sb strings.Builder
				for k := 2 + r.Intn(2); k > 0; k-- {
					sb.WriteString(t)
					sb.WriteString(randString(r, rest, 1+r.Intn(40)))
				}
				s = sb.String()
			}
			n = len(s)
		}
		if i%9 == 2 && len(alpha) > 1 {
			// the least rotation begins at a chosen place of the string as written: one tract of the least letter, which
			// occurs nowhere else, at the first or last index, at a quarter, at the middle and next to it, at 65536;
			// half of these strings are longer than 65,536 bytes
			kind = "placed-origin"
			least := alpha[0]
			for j := 1; j < len(alpha); j++ {
				if alpha[j] < least {
					least = alpha[j]
				}
			}
			rest := strings.ReplaceAll(alpha, string(least), "")
			if r.Intn(2) == 0 {
				n = []int{65536, 65537, 65538, 70000 + r.Intn(30000), 99999, 100000, 131072, maxLen}[r.Intn(8)]
				if n > maxLen {
					n = maxLen
				}
			}
			tract := 1 + r.Intn(4)
			if n < tract+2 {
				n = tract + 2
			}
			places := []int{0, 1, n/2 - 1, n / 2, n/2 + 1, n / 4, 3 * n / 4, n - tract, n - tract - 1, 65536, 65535, 32768, r.Intn(n)}
			pos := places[r.Intn(len(places))]
			if pos < 0 || pos+tract > n {
				pos = n / 2
				if pos+tract > n {
					pos = 0
				}
			}
			b := []byte(randString(r, rest, n))
			for j := 0; j < tract; j++ {
				b[pos+j] = least
			}
			s = string(b)
			if pos == n/2 {
				w.Add("placed_origin_at_the_middle_index", 1)
			}
		}
		if i%9 == 8 {
			// byte strings that are valid multi-byte UTF-8: the order that counts is still the order of bytes
			kind = "multi-byte-utf8"
			runes := []rune("éèабλμ漢字🧬ÿĀa")
			if r.Intn(2) == 0 {
				runes = []rune("©¡¢£®¿éÿж") // no single-byte letter at all; several letters of the form C2 xx
			}
			m := 1 + r.Intn(40)
			if r.Intn(3) == 0 {
				m = 1 + r.Intn(2000)
			}
			var sb strings.Builder
			k := 2 + r.Intn(4)
			for j := 0; j < m; j++ {
				sb.WriteRune(runes[r.Intn(k)+r.Intn(len(runes)-k+1)*0])
			}
			s = sb.String()
			if r.Intn(2) == 0 {
				sb.Reset()
				for j := 0; j < m; j++ {
					sb.WriteRune(runes[r.Intn(len(runes))])
				}
				s = sb.String()
			}
			n = len(s)
		}
		w.Add("structured_"+kind, 1)
		w.Max("max_length", int64(len(s)))
		w.Begin(id, s)
		c12Judge(w, id, s)
		rot := rotate(s, r.Intn(len(s)))
		c12Judge(w, id, rot)
		if (kind == "tied-tracts" || kind == "truncated-tandem-array" || kind == "interrupted-run") && len(s) < 2000 {
			for j := 0; j < 12; j++ { // the written origin inside a tract, at its ends, anywhere
				c12Judge(w, id, rotate(s, r.Intn(len(s))))
			}
		}
		w.End()
		if w.WantSample() && n < 200 {
			w.Sample(map[string]any{"case": id, "kind": kind, "input": fmt.Sprintf("%q", s), "least_rotation": fmt.Sprintf("%q", oracle.LeastRotation(s))})
		}
	}
}
