package props

import (
	"bytes"
	"compress/gzip"
	"fmt"
	"io"
	"math/rand"
	"os"
	"path/filepath"
	"runtime"
	"strings"
	"time"

	"github.com/TimothyStiles/poly/io/fasta"

	"verif/internal/gen"
	"verif/internal/mon"
)

func init() {
	mon.Register(&mon.Prop{
		ID: "C13", Race: true, Level: "exploration",
		Rule: "record lists of length 1..200 with names of printable characters (one in 60: a merged defline of 4..65 KiB) and sequences of 0..300000 letters (incl. the boundary lengths 65535, 65536, 65537 and single lines of 300000); write direction Build -> Parse, Write -> Read, gzip -> ReadGz; re-layouts by the harness's own writer (wrap width 1..250 or none, blank lines, ';' comment lines, CRLF, gzip); a complete grid of sequence lines of k*4096+d and k*65536+d letters (k 1..4, d -3..3) with LF and CRLF, single and wrapped; streaming: ParseConcurrent in a harness goroutine with channel capacities {0,1,2,7,64,1000}, PRNG-stalled consumers, an order-stress series (50..300 short records, capacities 0..8, a consumer spinning 0..3000 iterations per record) and a reader that returns 1..k bytes per call (sometimes data together with EOF), under the race detector; non-trivial = list with >= 2 records or a sequence longer than one line; distinct by hash of the laid-out text",
		Assumptions: []string{
			"oracle: the input list; closed-exactly-once is decided without blocking after the producer has returned (an open, empty channel whose producer is gone was never closed; a second close or a send after close panics in the harness goroutine and is recorded)",
			"a wall-clock watchdog per streaming case (120 s) only yields inconclusive",
		},
		Shards: tierShards(16, 16), WatchdogSec: tierSecs(900, 3600),
		MinStats: func(string) map[string]int64 {
			return map[string]int64{"lists_round_tripped": 300, "relayouts_parsed": 1000, "streaming_runs": 60, "records_streamed": 1000, "sequences_of_64KiB_or_more": 20, "buffer_boundary_cases": 200}
		},
		Run: runC13,
	})
}

var (
	c13PrevText []byte
	c13PrevCopy string
	c13PrevList []fasta.Fasta
	c13PrevGot  []fasta.Fasta
)

func fastaName(r *rand.Rand) string {
	n := gen.RandWordAlnum(r, 1+r.Intn(12))
	for i := r.Intn(4); i > 0; i-- {
		n += " " + gen.RandWord(r, 0)
	}
	if r.Intn(10) == 0 {
		n += " ;not a comment >nor a header"
	}
	return n
}

func randFastaList(r *rand.Rand, big bool) []fasta.Fasta {
	n := 1 + r.Intn(200)
	if r.Intn(2) == 0 {
		n = 1 + r.Intn(8)
	}
	var out []fasta.Fasta
	budget := 1 << 20
	for i := 0; i < n; i++ {
		var L int
		switch r.Intn(8) {
		case 0:
			L = 0
		case 1:
			L = 1 + r.Intn(5)
		case 2:
			L = 60 + r.Intn(30)
		default:
			L = r.Intn(2000)
		}
		if big && i == n/2 {
			L = []int{65535, 65536, 65537, 300000, 70000 + r.Intn(200000), 131072}[r.Intn(6)]
		}
		if L > budget {
			L = budget
		}
		budget -= L
		alpha := "ACGTN"
		if r.Intn(4) == 0 {
			alpha = "ACDEFGHIKLMNPQRSTVWY*acgt-"
		}
		name := fastaName(r)
		if r.Intn(60) == 0 {
			// a merged defline as in NCBI nr or UniRef: many source deflines joined with " >", kilobytes long
			var sb strings.Builder
			for target := []int{4000 + r.Intn(200), 5000 + r.Intn(20000), 65400 + r.Intn(300)}[r.Intn(3)]; sb.Len() < target; {
				sb.WriteString(fastaName(r))
				sb.WriteString(" >")
			}
			name = sb.String() + "x"
		}
		out = append(out, fasta.Fasta{Name: name, Sequence: randString(r, alpha, L)})
	}
	return out
}

// layoutFasta is the harness's own FASTA writer.
func layoutFasta(r *rand.Rand, list []fasta.Fasta, width int, blanks, comments, crlf bool) string {
	var sb strings.Builder
	nl := "\n"
	if crlf {
		nl = "\r\n"
	}
	if comments && r.Intn(2) == 0 {
		sb.WriteString("; file comment" + nl)
	}
	for _, f := range list {
		if blanks && r.Intn(3) == 0 {
			sb.WriteString(nl)
		}
		sb.WriteString(">" + f.Name + nl)
		if comments && r.Intn(3) == 0 {
			sb.WriteString(";" + gen.RandText(r, 30, 0) + nl)
		}
		if comments && r.Intn(150) == 0 {
			// a provenance blob in one comment line, longer than the usual line buffers (4 KiB, 64 KiB)
			sb.WriteString(";" + randString(r, "ACGT {}\":,>;", []int{4090 + r.Intn(12), 65530 + r.Intn(12), 70000 + r.Intn(30000)}[r.Intn(3)]) + nl)
		}
		s := f.Sequence
		if width <= 0 {
			sb.WriteString(s + nl)
			continue
		}
		for i := 0; i < len(s); i += width {
			e := i + width
			if e > len(s) {
				e = len(s)
			}
			sb.WriteString(s[i:e] + nl)
			if blanks && r.Intn(20) == 0 {
				sb.WriteString(nl)
			}
			if comments && r.Intn(40) == 0 {
				sb.WriteString("; mid-sequence comment" + nl)
			}
		}
		if len(s) == 0 && r.Intn(2) == 0 {
			sb.WriteString(nl)
		}
	}
	out := sb.String()
	if r.Intn(4) == 0 {
		out = strings.TrimSuffix(out, nl)
	}
	return out
}

func diffFasta(want, got []fasta.Fasta) string {
	if len(want) != len(got) {
		return fmt.Sprintf("%d records in, %d out", len(want), len(got))
	}
	for i := range want {
		if want[i].Name != got[i].Name {
			return fmt.Sprintf("record %d name %q became %q", i, clip(want[i].Name, 60), clip(got[i].Name, 60))
		}
		if want[i].Sequence != got[i].Sequence {
			return fmt.Sprintf("record %d (%s): sequence of %d letters became %d letters (or letters differ)", i, clip(want[i].Name, 30), len(want[i].Sequence), len(got[i].Sequence))
		}
	}
	return ""
}

func gzipBytes(b []byte) []byte {
	var buf bytes.Buffer
	zw := gzip.NewWriter(&buf)
	zw.Write(b)
	zw.Close()
	return buf.Bytes()
}

// gzipMembers compresses b as one gzip member or, in a third of the cases, as 2..4 members
// (RFC 1952 2.2: a gzip file is a series of members; their contents are concatenated).
func gzipMembers(r *rand.Rand, b []byte) ([]byte, int) {
	if r.Intn(3) != 0 || len(b) < 4 {
		return gzipBytes(b), 1
	}
	var out []byte
	cut, n := 0, 0
	for m := 1 + r.Intn(3); m > 0 && cut < len(b)-1; m-- {
		next := cut + 1 + r.Intn(len(b)-cut-1)
		out = append(out, gzipBytes(b[cut:next])...)
		cut = next
		n++
	}
	out = append(out, gzipBytes(b[cut:])...)
	return out, n + 1
}

// dribbleReader returns 1..k bytes per call and sometimes delivers the last bytes together with io.EOF.
type dribbleReader struct {
	data    []byte
	r       *rand.Rand
	k       int
	eofWith bool
	yield   bool
}

func (d *dribbleReader) Read(p []byte) (int, error) {
	if len(d.data) == 0 {
		return 0, io.EOF
	}
	n := 1 + d.r.Intn(d.k)
	if n > len(p) {
		n = len(p)
	}
	if n > len(d.data) {
		n = len(d.data)
	}
	copy(p, d.data[:n])
	d.data = d.data[n:]
	if d.yield && d.r.Intn(4) == 0 {
		runtime.Gosched()
	}
	if len(d.data) == 0 && d.eofWith {
		return n, io.EOF
	}
	return n, nil
}

var spinSink int

// c13VeryLongStall is how long the consumer of the "away" streaming runs stays away once.
var c13VeryLongStall = 6500 * time.Millisecond

type streamResult struct {
	recs        []fasta.Fasta
	closedSeen  bool   // consumer observed the close
	neverClosed bool   // producer returned, channel open and empty
	extraAfter  int    // values received after the producer returned although not yet closed
	panicMsg    string // panic of the producer goroutine
	timedOut    bool
	parked      string // the parser is parked for good: goroutine states that show it
	maxLen      int
}

// c13ParserParked decides, from a dump of all goroutines, whether every goroutine that runs code of package
// io/fasta is parked on a channel or lock. The caller is the consumer and is at that moment ready to receive,
// so a parser parked in a send cannot be waiting for it; nothing in the process can wake such a parser again.
func c13ParserParked(dump string) (bool, string) {
	n := 0
	var states []string
	for _, g := range strings.Split(dump, "\n\n") {
		if !strings.Contains(g, "github.com/TimothyStiles/poly/io/fasta.") {
			continue
		}
		n++
		head := g
		if i := strings.IndexByte(g, '\n'); i > 0 {
			head = g[:i]
		}
		blocked := false
		for _, st := range []string{"[chan send", "[chan receive", "[semacquire", "[select", "[sync.Mutex.Lock", "[sync.RWMutex", "[sync.WaitGroup.Wait", "[sync.Cond.Wait"} {
			if strings.Contains(head, st) {
				blocked = true
			}
		}
		if !blocked {
			return false, ""
		}
		states = append(states, head)
	}
	return n > 0, strings.Join(states, "; ")
}

// streamParse runs fasta.ParseConcurrent in a harness goroutine against a stalling consumer.
func streamParse(r *rand.Rand, text []byte, capacity int, stall int, dribble int, eofWith bool) streamResult {
	var res streamResult
	ch := make(chan fasta.Fasta, capacity)
	done := make(chan string, 1)
	var rd io.Reader = bytes.NewReader(text)
	if dribble > 0 {
		rd = &dribbleReader{data: text, r: rand.New(rand.NewSource(r.Int63())), k: dribble, eofWith: eofWith, yield: true}
	}
	go func() {
		done <- mon.Try(func() { fasta.ParseConcurrent(rd, ch) })
	}()
	watchdog := time.After(120 * time.Second)
	parkTick := time.NewTicker(100 * time.Millisecond)
	defer parkTick.Stop()
	parkedSeen := 0
	probeNext := false
	producerDone := false
	longStallAt := r.Intn(4)
	spinMax := []int{0, 50, 400, 3000}[r.Intn(4)]
	for {
		if l := len(ch); l > res.maxLen {
			res.maxLen = l
		}
		switch stall {
		case 1:
			for i := r.Intn(20); i > 0; i-- {
				runtime.Gosched()
			}
		case 2:
			if r.Intn(3) == 0 {
				time.Sleep(time.Duration(r.Intn(200)) * time.Microsecond)
			}
		case 3:
			if len(res.recs)%7 == 3 {
				time.Sleep(time.Duration(r.Intn(3)) * time.Millisecond)
			}
		case 5: // a consumer that is only a little slower than the parser: a short spin per record
			for i := r.Intn(spinMax + 1); i > 0; i-- {
				spinSink++
			}
		case 6: // the consumer is away for longer than the round timeouts people put into send loops (5 s)
			if len(res.recs) == longStallAt {
				time.Sleep(c13VeryLongStall)
				longStallAt = -1
			}
		case 4: // one long stall (0.6..1.2 s) while records are waiting: the parser has to wait as long as it takes
			if len(res.recs) == longStallAt {
				time.Sleep(time.Duration(600+r.Intn(600)) * time.Millisecond)
				longStallAt = -1
			}
		}
		if producerDone {
			// non-blocking: the producer is gone, nothing else can close or fill the channel
			select {
			case v, ok := <-ch:
				if !ok {
					res.closedSeen = true
					return res
				}
				res.recs = append(res.recs, v)
			default:
				res.neverClosed = true
				return res
			}
			continue
		}
		// take handles one receive; it reports whether the run is over
		take := func(v fasta.Fasta, ok bool) bool {
			parkedSeen = 0
			if !ok {
				res.closedSeen = true
				// wait for the producer to return (it may still panic, e.g. on a second close)
				select {
				case p := <-done:
					res.panicMsg = p
				case <-watchdog:
					res.timedOut = true
				}
				return true
			}
			res.recs = append(res.recs, v)
			return false
		}
		if probeNext {
			// 100 ms have passed without a record. Only when the channel has nothing to offer at this moment (a
			// parser parked in a send to this consumer would make the receive succeed) and the parser has not
			// returned is the parser's state examined.
			probeNext = false
			select {
			case v, ok := <-ch:
				if take(v, ok) {
					return res
				}
				continue
			case p := <-done:
				res.panicMsg = p
				producerDone = true
				continue
			default:
				if parked, states := c13ParserParked(c20Dump()); parked {
					parkedSeen++
					if parkedSeen >= 3 {
						res.parked = states
						return res
					}
				} else {
					parkedSeen = 0
				}
			}
		}
		select {
		case v, ok := <-ch:
			if take(v, ok) {
				return res
			}
		case p := <-done:
			res.panicMsg = p
			producerDone = true
		case <-parkTick.C:
			probeNext = true
		case <-watchdog:
			res.timedOut = true
			return res
		}
	}
}

func runC13(w *mon.W) {
	nLists := w.Pick(1200, 12000)
	nStream := w.Pick(400, 6000)
	tmp := filepath.Join(w.Dir, fmt.Sprintf("c13-%d", w.Shard))
	os.MkdirAll(tmp, 0755)
	defer os.RemoveAll(tmp)
	idx := 0
	for k := 0; k < nLists; k++ {
		id := fmt.Sprintf("list-%d", k)
		idx++
		if !w.Want(id, idx) {
			continue
		}
		r := w.Rand(id)
		big := k%4 == 0
		want := randFastaList(r, big)
		list := append([]fasta.Fasta(nil), want...) // what the library is handed; results are judged against want
		for _, f := range list {
			if len(f.Sequence) >= 65536 {
				w.Add("sequences_of_64KiB_or_more", 1)
			}
			w.Max("max_sequence_length", int64(len(f.Sequence)))
		}
		w.Begin(id, fmt.Sprintf("%d records, big=%v", len(list), big))
		// ---- write direction
		var text []byte
		if p := mon.Try(func() { text = fasta.Build(list) }); p != "" {
			w.Violation(id, "fasta.Build: "+p, nil)
			w.End()
			continue
		}
		w.Eval(len(list) >= 2 || len(list[0].Sequence) > 80, mon.Hash64(string(text)))
		rep := map[string]any{"records": len(list), "text_head": clip(string(text), 2000)}
		var got []fasta.Fasta
		how := "fasta.Parse(fasta.Build(x))"
		switch k % 5 {
		case 1:
			how = "fasta.Read of the file fasta.Write wrote"
			path := filepath.Join(tmp, "x.fasta")
			fasta.Write(list, path)
			got = fasta.Read(path)
		case 2:
			how = "fasta.ReadGz of the gzipped text of fasta.Build"
			path := filepath.Join(tmp, "x.fasta.gz")
			gzb, members := gzipMembers(r, text)
			if members > 1 {
				w.Add("multi_member_gzip_files", 1)
			}
			os.WriteFile(path, gzb, 0644)
			got = fasta.ReadGz(path)
		default:
			got = fasta.Parse(bytes.NewReader(text))
		}
		w.Add("lists_round_tripped", 1)
		if d := diffFasta(want, got); d != "" {
			w.Violation(id, fmt.Sprintf("%s: %s", how, d), rep)
		}
		if c13PrevText != nil {
			w.Add("earlier_results_rechecked", 1)
			if string(c13PrevText) != c13PrevCopy {
				w.Violation(id, "the text returned by an earlier fasta.Build call changed after later calls", nil)
			}
			if d := diffFasta(c13PrevList, c13PrevGot); d != "" {
				w.Violation(id, "the records returned by an earlier fasta.Parse call changed after later calls: "+d, nil)
			}
		}
		if len(text) < 1<<20 {
			c13PrevText, c13PrevCopy, c13PrevList, c13PrevGot = text, string(text), list, got
		}
		// ---- re-layouts
		for v := 0; v < 6; v++ {
			width := []int{0, 1 + r.Intn(250), 60, 70, 1 + r.Intn(10), 80}[v]
			blanks, comments, crlf, gz := v == 1 || v == 4, v == 2 || v == 4, v == 3 || v == 4, v == 5
			if big && width > 0 && width < 20 {
				width = 40 + r.Intn(200) // keep the line count of 300000-letter sequences reasonable
			}
			lay := layoutFasta(r, list, width, blanks, comments, crlf)
			var g2 []fasta.Fasta
			if gz {
				path := filepath.Join(tmp, "lay.fasta.gz")
				gzb, members := gzipMembers(r, []byte(lay))
				if members > 1 {
					w.Add("multi_member_gzip_files", 1)
				}
				os.WriteFile(path, gzb, 0644)
				g2 = fasta.ReadGz(path)
			} else {
				g2 = fasta.Parse(strings.NewReader(lay))
			}
			w.Add("relayouts_parsed", 1)
			if d := diffFasta(want, g2); d != "" {
				w.Violation(id, fmt.Sprintf("re-layout (wrap width %d, blank lines %v, ';' comments %v, CRLF %v, gzip %v) changes the parse result: %s", width, blanks, comments, crlf, gz, d),
					map[string]any{"records": len(list), "text_head": clip(lay, 2000)})
				break
			}
		}
		w.End()
		if w.WantSample() && len(list) <= 3 && len(text) < 400 {
			w.Sample(map[string]any{"case": id, "fasta_text": string(text)})
		}
	}
	// ---- buffer-size boundaries: sequence lines of k*B+d letters (B = 4096 and 65536, the usual reader and
	// scanner buffer sizes), LF and CRLF, single line and wrapped at that width, after headers of varying length
	for _, B := range []int{4096, 65536} {
		for kk := 1; kk <= 4; kk++ {
			for d := -3; d <= 3; d++ {
				for variant := 0; variant < 4; variant++ {
					id := fmt.Sprintf("boundary-%d-%d-%d-%d", B, kk, d, variant)
					idx++
					if !w.Want(id, idx) {
						continue
					}
					r := w.Rand(id)
					L := kk*B + d
					crlf := variant&1 == 1
					wrapped := variant&2 == 2
					list := []fasta.Fasta{
						{Name: fastaName(r), Sequence: randString(r, "ACGT", r.Intn(100))},
						{Name: fastaName(r), Sequence: randString(r, "ACGTN", L)},
						{Name: fastaName(r), Sequence: randString(r, "ACGT", 1+r.Intn(100))},
					}
					width := 0
					if wrapped {
						width = L
						list[1].Sequence += randString(r, "ACGT", L+r.Intn(50)) // a full line of L letters, then another, then a rest
					}
					lay := layoutFasta(r, list, width, false, false, crlf)
					w.Begin(id, fmt.Sprintf("sequence line of %d letters, CRLF %v, wrapped %v", L, crlf, wrapped))
					var got []fasta.Fasta
					how := "fasta.Parse"
					if kk%2 == 0 {
						how = "fasta.ParseConcurrent behind a reader of <= 5000-byte chunks"
						res := streamParse(r, []byte(lay), 2, 0, 5000, d%2 == 0)
						got = res.recs
						if res.panicMsg != "" || res.neverClosed || res.timedOut {
							w.Violation(id, fmt.Sprintf("%s on a sequence line of %d letters: panic %q, never closed %v, timed out %v", how, L, res.panicMsg, res.neverClosed, res.timedOut), nil)
						}
					} else {
						got = fasta.Parse(strings.NewReader(lay))
					}
					w.Eval(true, mon.Hash64(lay))
					w.Add("buffer_boundary_cases", 1)
					if dd := diffFasta(list, got); dd != "" {
						w.Violation(id, fmt.Sprintf("%s of a layout with a sequence line of exactly %d letters (CRLF %v, wrapped at that width %v): %s", how, L, crlf, wrapped, dd),
							map[string]any{"line_length": L, "crlf": crlf, "wrapped": wrapped})
					}
					w.End()
				}
			}
		}
	}
	// ---- streaming
	caps := []int{0, 1, 2, 7, 64, 1000}
	for k := 0; k < nStream; k++ {
		id := fmt.Sprintf("stream-%d", k)
		idx++
		if !w.Want(id, idx) {
			continue
		}
		r := w.Rand(id)
		want := randFastaList(r, k%6 == 0)
		list := append([]fasta.Fasta(nil), want...)
		text := fasta.Build(list)
		if k%3 == 0 {
			text = []byte(layoutFasta(r, list, 1+r.Intn(120), true, true, r.Intn(2) == 0))
		}
		capacity := caps[k%len(caps)]
		stall := r.Intn(4)
		if k%20 == 19 {
			stall = 4
			w.Add("streaming_runs_with_a_long_consumer_stall", 1)
		}
		dribble := []int{0, 1, 7, 100, 5000}[r.Intn(5)]
		if len(text) > 200000 && dribble > 0 && dribble < 100 {
			dribble = 5000
		}
		eofWith := r.Intn(2) == 0
		w.Begin(id, fmt.Sprintf("%d records, capacity %d, stall pattern %d, reader chunk <= %d, data with EOF %v", len(list), capacity, stall, dribble, eofWith))
		res := streamParse(r, text, capacity, stall, dribble, eofWith)
		w.Eval(len(list) >= 2, mon.Hash64(string(text), fmt.Sprint(capacity, stall, dribble)))
		w.Add("streaming_runs", 1)
		w.Add("records_streamed", int64(len(res.recs)))
		w.SetAdd("streaming_configurations", fmt.Sprintf("cap=%d stall=%d chunk=%d eofWithData=%v", capacity, stall, dribble, eofWith))
		w.Max("max_channel_occupancy", int64(res.maxLen))
		rep := map[string]any{"records": len(list), "capacity": capacity, "stall": stall, "chunk": dribble, "received": len(res.recs)}
		switch {
		case res.timedOut:
			w.Inconclusive(fmt.Sprintf("%s: streaming run did not finish within the 120 s wall-clock watchdog", id))
		case res.parked != "":
			w.Violation(id, fmt.Sprintf("ParseConcurrent (capacity %d) never returns: after %d of %d records every goroutine of the parser is parked while the consumer is ready to receive (%s)", capacity, len(res.recs), len(list), res.parked), rep)
		case res.panicMsg != "":
			w.Violation(id, fmt.Sprintf("ParseConcurrent (capacity %d): %s after %d of %d records", capacity, res.panicMsg, len(res.recs), len(list)), rep)
		case res.neverClosed:
			w.Violation(id, fmt.Sprintf("ParseConcurrent returned without closing its channel (capacity %d, %d of %d records received)", capacity, len(res.recs), len(list)), rep)
		default:
			if d := diffFasta(want, res.recs); d != "" {
				w.Violation(id, fmt.Sprintf("records received from ParseConcurrent (capacity %d, stall pattern %d, chunk %d): %s", capacity, stall, dribble, d), rep)
			}
		}
		w.End()
	}
	// the consumer is away once for 6.5 s (thorough: also 11 s and 31 s) while records are waiting: the parser waits
	for k, away := range []time.Duration{6500 * time.Millisecond, 11 * time.Second, 31 * time.Second}[:w.Pick(1, 3)] {
		id := fmt.Sprintf("away-%d", k)
		idx++
		if !w.Want(id, idx) {
			continue
		}
		r := w.Rand(id)
		want := randFastaList(r, false)
		for len(want) < 8 {
			want = append(want, randFastaList(r, false)...)
		}
		text := fasta.Build(append([]fasta.Fasta(nil), want...))
		capacity := []int{0, 1, 2}[k%3]
		c13VeryLongStall = away
		w.Begin(id, fmt.Sprintf("%d records, capacity %d, consumer away for %v once", len(want), capacity, away))
		res := streamParse(r, text, capacity, 6, 0, false)
		w.Eval(true, mon.Hash64(string(text), "away", fmt.Sprint(away)))
		w.Add("streaming_runs_with_a_consumer_away_for_seconds", 1)
		rep := map[string]any{"records": len(want), "capacity": capacity, "received": len(res.recs), "away": away.String()}
		switch {
		case res.timedOut:
			w.Inconclusive(fmt.Sprintf("%s: streaming run did not finish within the 120 s wall-clock watchdog", id))
		case res.parked != "":
			w.Violation(id, fmt.Sprintf("ParseConcurrent (capacity %d) never returns after the consumer was away for %v (%s)", capacity, away, res.parked), rep)
		case res.panicMsg != "":
			w.Violation(id, fmt.Sprintf("ParseConcurrent (capacity %d, consumer away for %v once): %s", capacity, away, res.panicMsg), rep)
		case res.neverClosed:
			w.Violation(id, fmt.Sprintf("ParseConcurrent returned without closing its channel (capacity %d, consumer away for %v once, %d of %d records received)", capacity, away, len(res.recs), len(want)), rep)
		default:
			if d := diffFasta(want, res.recs); d != "" {
				w.Violation(id, fmt.Sprintf("records received from ParseConcurrent by a consumer that was away for %v once (capacity %d): %s", away, capacity, d), rep)
			}
		}
		w.End()
	}
	// order stress: many short records, small channels, a consumer about as fast as the parser - whatever
	// the parser does when the channel is momentarily full, the records arrive in file order
	for k := 0; k < w.Pick(3000, 60000); k++ {
		id := fmt.Sprintf("order-%d", k)
		idx++
		if !w.Want(id, idx) {
			continue
		}
		r := w.Rand(id)
		n := 50 + r.Intn(250)
		want := make([]fasta.Fasta, n)
		for i := range want {
			want[i] = fasta.Fasta{Name: fmt.Sprintf("r%d %s", i, gen.RandWordAlnum(r, 1+r.Intn(8))), Sequence: randString(r, "ACGT", 1+r.Intn(30))}
		}
		text := fasta.Build(append([]fasta.Fasta(nil), want...))
		capacity := r.Intn(9)
		w.Begin(id, fmt.Sprintf("%d short records, capacity %d, spinning consumer", n, capacity))
		res := streamParse(r, text, capacity, 5, 0, false)
		w.Eval(true, mon.Hash64(string(text), fmt.Sprint(capacity)))
		w.Add("order_stress_runs", 1)
		w.Add("records_streamed", int64(len(res.recs)))
		w.Max("max_channel_occupancy", int64(res.maxLen))
		rep := map[string]any{"records": n, "capacity": capacity, "received": len(res.recs)}
		switch {
		case res.timedOut:
			w.Inconclusive(fmt.Sprintf("%s: streaming run did not finish within the 120 s wall-clock watchdog", id))
		case res.parked != "":
			w.Violation(id, fmt.Sprintf("ParseConcurrent (capacity %d) never returns: after %d of %d records every goroutine of the parser is parked while the consumer is ready to receive (%s)", capacity, len(res.recs), n, res.parked), rep)
		case res.panicMsg != "":
			w.Violation(id, fmt.Sprintf("ParseConcurrent (capacity %d): %s after %d of %d records", capacity, res.panicMsg, len(res.recs), n), rep)
		case res.neverClosed:
			w.Violation(id, fmt.Sprintf("ParseConcurrent returned without closing its channel (capacity %d, %d of %d records received)", capacity, len(res.recs), n), rep)
		default:
			if d := diffFasta(want, res.recs); d != "" {
				w.Violation(id, fmt.Sprintf("records received from ParseConcurrent by a consumer spinning briefly per record (capacity %d): %s", capacity, d), rep)
			}
		}
		w.End()
	}
	// the path-based concurrent wrappers
	for k := 0; k < w.Pick(16, 200); k++ {
		id := fmt.Sprintf("readconc-%d", k)
		idx++
		if !w.Want(id, idx) {
			continue
		}
		r := w.Rand(id)
		want := randFastaList(r, false)
		list := append([]fasta.Fasta(nil), want...)
		w.Begin(id, fmt.Sprintf("%d records through ReadConcurrent/ReadGzConcurrent", len(list)))
		ch := make(chan fasta.Fasta, []int{0, 3, 1000}[k%3])
		if k%2 == 0 {
			path := filepath.Join(tmp, "c.fasta")
			fasta.Write(list, path)
			fasta.ReadConcurrent(path, ch)
		} else {
			path := filepath.Join(tmp, "c.fasta.gz")
			gzb, _ := gzipMembers(r, fasta.Build(list))
			os.WriteFile(path, gzb, 0644)
			fasta.ReadGzConcurrent(path, ch)
		}
		var got []fasta.Fasta
		timeout := time.After(120 * time.Second)
	loop:
		for {
			select {
			case v, ok := <-ch:
				if !ok {
					break loop
				}
				got = append(got, v)
			case <-timeout:
				w.Inconclusive(id + ": ReadConcurrent did not close its channel within 120 s")
				break loop
			}
		}
		w.Eval(true, mon.Hash64(id))
		w.Add("path_based_streaming_runs", 1)
		if d := diffFasta(want, got); d != "" {
			w.Violation(id, "records received from ReadConcurrent/ReadGzConcurrent: "+d, nil)
		}
		w.End()
	}
}
