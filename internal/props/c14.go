package props

import (
	"fmt"
	"math/rand"
	"os"
	"path/filepath"
	"sort"
	"strconv"
	"strings"

	"github.com/TimothyStiles/poly"
	"github.com/TimothyStiles/poly/io/gff"

	"verif/internal/gen"
	"verif/internal/mon"
)

func init() {
	mon.Register(&mon.Prop{
		ID: "C14", Level: "exploration",
		Rule:        "annotated sequences with every length 1..300 (each residue class modulo the 70-column FASTA width several times) and random lengths to 5000, 0..30 features with 1..6 attributes (one feature in 40 with a value of 3,000..140,000 letters, around 4096, 8192 and 65536 bytes per row), features at the extreme coordinates 1 and L, field text free of tab, newline, ';', '=' and seqids free of white space; write direction: gff.Build -> gff.Parse, gff.Build -> the harness's own GFF3 reader, Write/Read through a temp file; parse direction: GFF3 laid out by the harness's own writer (attribute order shuffled, FASTA wrap width 1..200, one file in four with ragged FASTA lines (a regular wrap with single letters moved between lines, or every line of its own width), one in twelve with zero-padded decimal coordinates, with/without ###, with/without final newline) -> gff.Parse; non-trivial = at least one feature; distinct by hash of the GFF text",
		Assumptions: []string{"oracle: the input record; coordinates checked against the harness's own slicing of the sequence (file start..end, 1-based inclusive)"},
		Shards:      tierShards(8, 16), WatchdogSec: tierSecs(600, 3600),
		MinStats: func(string) map[string]int64 {
			return map[string]int64{"write_then_read": 300, "independent_layouts_parsed": 300, "feature_sequences_checked": 2000, "lengths_1_mod_70": 5}
		},
		Run: runC14,
	})
}

type c14Kept struct {
	rec  *gffRecord
	got  poly.Sequence
	text []byte
	copy string
}

var c14Earlier []c14Kept

type gffFeature struct {
	Seqid, Source, Type, Score, Strand, Phase string
	Start, End                                int // 1-based inclusive (file convention)
	Attrs                                     map[string]string
}

type gffRecord struct {
	Name             string
	RegStart, RegEnd int
	Seq              string
	Feats            []gffFeature
	LongRows         int
}

func gffWord(r *rand.Rand) string {
	w := gen.RandWord(r, 0)
	w = strings.NewReplacer(";", ":", "=", "-", "\t", "_").Replace(w)
	if w == "" {
		w = "x"
	}
	return w
}

func gffText(r *rand.Rand, n int) string {
	var ws []string
	for i := 1 + r.Intn(n); i > 0; i-- {
		ws = append(ws, gffWord(r))
	}
	return strings.Join(ws, " ")
}

func randGFF(r *rand.Rand, L int) *gffRecord {
	rec := &gffRecord{Name: gen.RandWordAlnum(r, 3+r.Intn(10)), RegStart: 1, RegEnd: L}
	if r.Intn(4) == 0 {
		rec.RegStart = 1 + r.Intn(50)
		rec.RegEnd = rec.RegStart + L - 1
	}
	b := make([]byte, L)
	for i := range b {
		b[i] = "ACGTacgtN"[r.Intn(9)]
	}
	rec.Seq = string(b)
	nf := r.Intn(31)
	if r.Intn(3) == 0 {
		nf = r.Intn(4)
	}
	for i := 0; i < nf; i++ {
		f := gffFeature{Seqid: rec.Name, Source: gffWord(r), Type: []string{"gene", "CDS", "mRNA", "exon", "region", "repeat_region", "tRNA"}[r.Intn(7)],
			Score: []string{".", "0.5", "1e-10", "42"}[r.Intn(4)], Strand: []string{"+", "-", ".", "?"}[r.Intn(4)], Phase: []string{".", "0", "1", "2"}[r.Intn(4)], Attrs: map[string]string{}}
		if r.Intn(6) == 0 {
			f.Seqid = gen.RandWordAlnum(r, 4)
		}
		switch r.Intn(6) {
		case 0:
			f.Start, f.End = 1, L
		case 1:
			f.Start, f.End = 1, 1+r.Intn(L)
		case 2:
			f.Start = 1 + r.Intn(L)
			f.End = L
		case 3:
			f.Start = 1 + r.Intn(L)
			f.End = f.Start
		default:
			f.Start = 1 + r.Intn(L)
			f.End = f.Start + r.Intn(L-f.Start+1)
		}
		keys := []string{"ID", "Name", "Parent", "Dbxref", "Note", "gbkey", "gene", "locus_tag", "product", "Alias"}
		for _, k := range r.Perm(len(keys))[:1+r.Intn(6)] {
			v := gffText(r, 4)
			switch r.Intn(10) { // blanks at the ends of a value belong to the value
			case 0:
				v += " "
			case 1:
				v += "  "
			case 2:
				v = " " + v
			}
			f.Attrs[keys[k]] = v
		}
		if r.Intn(40) == 0 {
			// a row longer than the usual line buffers: a conceptual translation or a long note
			n := []int{3000 + r.Intn(6000), 4000 + r.Intn(200), 8100 + r.Intn(200), 65400 + r.Intn(300), 70000 + r.Intn(70000)}[r.Intn(5)]
			f.Attrs[[]string{"translation", "Note"}[r.Intn(2)]] = randString(r, "ACDEFGHIKLMNPQRSTVWY ", n-1) + "K"
			rec.LongRows++
		}
		rec.Feats = append(rec.Feats, f)
	}
	// a gene model: children name their parent's ID; an unstranded child (".") of a stranded parent keeps its "."
	if len(rec.Feats) >= 2 && r.Intn(4) == 0 {
		pa := r.Intn(len(rec.Feats))
		rec.Feats[pa].Strand = []string{"+", "-"}[r.Intn(2)]
		pid, ok := rec.Feats[pa].Attrs["ID"]
		if !ok {
			pid = "gene" + fmt.Sprint(r.Intn(1000))
			rec.Feats[pa].Attrs["ID"] = pid
		}
		for n := 1 + r.Intn(3); n > 0; n-- {
			ch := r.Intn(len(rec.Feats))
			if ch == pa {
				continue
			}
			rec.Feats[ch].Attrs["Parent"] = pid
			rec.Feats[ch].Strand = []string{".", ".", "?", "+", "-"}[r.Intn(5)]
		}
	}
	// a row may occur twice, letter for letter (merged annotation tracks): both are features
	if len(rec.Feats) >= 1 && len(rec.Feats) < 30 && r.Intn(8) == 0 {
		src := rec.Feats[r.Intn(len(rec.Feats))]
		cp := src
		cp.Attrs = map[string]string{}
		for k, v := range src.Attrs {
			cp.Attrs[k] = v
		}
		at := r.Intn(len(rec.Feats) + 1)
		rec.Feats = append(rec.Feats[:at], append([]gffFeature{cp}, rec.Feats[at:]...)...)
	}
	// features are rows of their own even when they carry the same ID, Name or Parent value
	if len(rec.Feats) >= 2 && r.Intn(4) == 0 {
		for n := 1 + r.Intn(3); n > 0; n-- {
			a, b := r.Intn(len(rec.Feats)), r.Intn(len(rec.Feats))
			key := []string{"ID", "ID", "Name", "Parent"}[r.Intn(4)]
			if v, ok := rec.Feats[a].Attrs[key]; ok && a != b {
				rec.Feats[b].Attrs[key] = v
			} else if a != b {
				rec.Feats[a].Attrs[key] = "shared_" + fmt.Sprint(n)
				rec.Feats[b].Attrs[key] = "shared_" + fmt.Sprint(n)
			}
		}
	}
	return rec
}

func (rec *gffRecord) toPoly() poly.Sequence {
	var s poly.Sequence
	s.Meta.Name, s.Meta.GffVersion, s.Meta.RegionStart, s.Meta.RegionEnd = rec.Name, "3", rec.RegStart, rec.RegEnd
	s.Sequence = rec.Seq
	for _, f := range rec.Feats {
		pf := poly.Feature{Name: f.Seqid, Source: f.Source, Type: f.Type, Score: f.Score, Strand: f.Strand, Phase: f.Phase, Attributes: map[string]string{},
			SequenceLocation: poly.Location{Start: f.Start - 1, End: f.End}}
		for k, v := range f.Attrs {
			pf.Attributes[k] = v
		}
		s.AddFeature(&pf)
	}
	return s
}

var c14PaddedFiles, c14RaggedFiles int

// writeGFF is the harness's own GFF3 writer for the parse direction.
func (rec *gffRecord) writeGFF(r *rand.Rand) string {
	var sb strings.Builder
	sb.WriteString("##gff-version 3\n")
	// column-oriented exports write the integer columns zero-padded to one width (decimal all the same)
	padded := 0
	if r.Intn(12) == 0 {
		padded = 3 + r.Intn(6)
		c14PaddedFiles++
	}
	if padded > 0 && r.Intn(2) == 0 {
		fmt.Fprintf(&sb, "##sequence-region %s %0*d %0*d\n", rec.Name, padded, rec.RegStart, padded, rec.RegEnd)
	} else {
		fmt.Fprintf(&sb, "##sequence-region %s %d %d\n", rec.Name, rec.RegStart, rec.RegEnd)
	}
	if r.Intn(3) == 0 {
		sb.WriteString("##species https://example.org/taxonomy\n")
	}
	groups := r.Intn(3) == 0
	for _, f := range rec.Feats {
		var kv []string
		for k, v := range f.Attrs {
			kv = append(kv, k+"="+v)
		}
		sort.Strings(kv)
		r.Shuffle(len(kv), func(i, j int) { kv[i], kv[j] = kv[j], kv[i] })
		if padded > 0 {
			fmt.Fprintf(&sb, "%s\t%s\t%s\t%0*d\t%0*d\t%s\t%s\t%s\t%s\n", f.Seqid, f.Source, f.Type, padded, f.Start, padded, f.End, f.Score, f.Strand, f.Phase, strings.Join(kv, ";"))
		} else {
			fmt.Fprintf(&sb, "%s\t%s\t%s\t%d\t%d\t%s\t%s\t%s\t%s\n", f.Seqid, f.Source, f.Type, f.Start, f.End, f.Score, f.Strand, f.Phase, strings.Join(kv, ";"))
		}
		if groups && r.Intn(3) == 0 {
			sb.WriteString("###\n") // GFF3: all forward references of the features so far are resolved; more features may follow
		}
	}
	if r.Intn(2) == 0 {
		sb.WriteString("###\n")
	}
	sb.WriteString("##FASTA\n>" + rec.Name + "\n")
	width := 1 + r.Intn(200)
	if r.Intn(3) == 0 {
		width = []int{1, 2, 60, 70, 80}[r.Intn(5)]
	}
	if r.Intn(6) == 0 {
		width = len(rec.Seq) + 1 // the whole sequence on one line, however long
	}
	var widths []int
	for i := 0; i < len(rec.Seq); i += width {
		e := i + width
		if e > len(rec.Seq) {
			e = len(rec.Seq)
		}
		widths = append(widths, e-i)
	}
	switch ragged := r.Intn(8); {
	case ragged == 0 && len(widths) >= 3:
		// a regular wrap edited by hand: a letter taken from one line and given to another, one to three times
		// (the number of lines and of letters stays that of the regular wrap)
		for n := 1 + r.Intn(3); n > 0; n-- {
			i, j := r.Intn(len(widths)), r.Intn(len(widths))
			if i != j && widths[i] > 1 {
				widths[i]--
				widths[j]++
			}
		}
		c14RaggedFiles++
	case ragged == 1 && len(rec.Seq) >= 2:
		// every line of a width of its own
		widths = widths[:0]
		for left := len(rec.Seq); left > 0; {
			n := 1 + r.Intn(2*width)
			if n > left {
				n = left
			}
			widths = append(widths, n)
			left -= n
		}
		c14RaggedFiles++
	}
	for i, k := 0, 0; k < len(widths); k++ {
		sb.WriteString(rec.Seq[i:i+widths[k]] + "\n")
		i += widths[k]
	}
	out := sb.String()
	if r.Intn(3) == 0 {
		out = strings.TrimSuffix(out, "\n")
	}
	return out
}

// readGFF is the harness's own GFF3 reader for poly's output.
func readGFF(text string) (*gffRecord, error) {
	rec := &gffRecord{}
	fasta := false
	var seq strings.Builder
	for _, l := range strings.Split(text, "\n") {
		l = strings.TrimRight(l, "\r")
		switch {
		case l == "":
		case fasta:
			if strings.HasPrefix(l, ">") {
				continue
			}
			seq.WriteString(l)
		case l == "##FASTA":
			fasta = true
		case strings.HasPrefix(l, "##sequence-region"):
			f := strings.Fields(l)
			if len(f) != 4 {
				return nil, fmt.Errorf("sequence-region line %q", l)
			}
			rec.Name = f[1]
			rec.RegStart, _ = strconv.Atoi(f[2])
			rec.RegEnd, _ = strconv.Atoi(f[3])
		case strings.HasPrefix(l, "#"):
		default:
			c := strings.Split(l, "\t")
			if len(c) != 9 {
				return nil, fmt.Errorf("feature line with %d columns: %q", len(c), l)
			}
			f := gffFeature{Seqid: c[0], Source: c[1], Type: c[2], Score: c[5], Strand: c[6], Phase: c[7], Attrs: map[string]string{}}
			var e1, e2 error
			f.Start, e1 = strconv.Atoi(c[3])
			f.End, e2 = strconv.Atoi(c[4])
			if e1 != nil || e2 != nil {
				return nil, fmt.Errorf("coordinates in %q", l)
			}
			for _, kv := range strings.Split(c[8], ";") {
				p := strings.SplitN(kv, "=", 2)
				if len(p) != 2 {
					return nil, fmt.Errorf("attribute %q", kv)
				}
				f.Attrs[p[0]] = p[1]
			}
			rec.Feats = append(rec.Feats, f)
		}
	}
	rec.Seq = seq.String()
	return rec, nil
}

func diffGFF(a, b *gffRecord) string {
	if a.Name != b.Name || a.RegStart != b.RegStart || a.RegEnd != b.RegEnd {
		return fmt.Sprintf("region %s %d..%d vs %s %d..%d", a.Name, a.RegStart, a.RegEnd, b.Name, b.RegStart, b.RegEnd)
	}
	if a.Seq != b.Seq {
		return fmt.Sprintf("sequence of %d letters vs %d letters (or letters differ)", len(a.Seq), len(b.Seq))
	}
	if len(a.Feats) != len(b.Feats) {
		return fmt.Sprintf("%d features vs %d", len(a.Feats), len(b.Feats))
	}
	for i := range a.Feats {
		x, y := a.Feats[i], b.Feats[i]
		if x.Seqid != y.Seqid || x.Source != y.Source || x.Type != y.Type || x.Score != y.Score || x.Strand != y.Strand || x.Phase != y.Phase || x.Start != y.Start || x.End != y.End {
			return fmt.Sprintf("feature %d: %+v vs %+v", i, x, y)
		}
		if len(x.Attrs) != len(y.Attrs) {
			return fmt.Sprintf("feature %d: attributes %v vs %v", i, x.Attrs, y.Attrs)
		}
		for k, v := range x.Attrs {
			if y.Attrs[k] != v {
				return fmt.Sprintf("feature %d attribute %s: %q vs %q", i, k, v, y.Attrs[k])
			}
		}
	}
	return ""
}

// fromPolyGFF describes a parsed poly.Sequence in file coordinates.
func fromPolyGFF(s poly.Sequence) *gffRecord {
	rec := &gffRecord{Name: s.Meta.Name, RegStart: s.Meta.RegionStart, RegEnd: s.Meta.RegionEnd, Seq: s.Sequence}
	for _, f := range s.Features {
		g := gffFeature{Seqid: f.Name, Source: f.Source, Type: f.Type, Score: f.Score, Strand: f.Strand, Phase: f.Phase, Start: f.SequenceLocation.Start + 1, End: f.SequenceLocation.End, Attrs: map[string]string{}}
		for k, v := range f.Attributes {
			g.Attrs[k] = v
		}
		rec.Feats = append(rec.Feats, g)
	}
	return rec
}

func c14CheckParsed(w *mon.W, id, how string, rec *gffRecord, got poly.Sequence, rep map[string]any) {
	if d := diffGFF(rec, fromPolyGFF(got)); d != "" {
		w.Violation(id, fmt.Sprintf("%s (sequence length %d, %d features): %s", how, len(rec.Seq), len(rec.Feats), d), rep)
		return
	}
	for i, f := range got.Features {
		var fs string
		if p := mon.Try(func() { fs = f.GetSequence() }); p != "" {
			w.Violation(id, fmt.Sprintf("%s: GetSequence of parsed feature %d: %s", how, i, p), rep)
			return
		}
		retainCheck(w, id, "GetSequence", fs, fmt.Sprintf("GetSequence of GFF feature %d", i))
		w.Add("feature_sequences_checked", 1)
		want := rec.Seq[rec.Feats[i].Start-1 : rec.Feats[i].End]
		if fs != want {
			w.Violation(id, fmt.Sprintf("%s: parsed feature %d (%d..%d in the file) reports %q, bases %d..%d of the file's sequence are %q", how, i, rec.Feats[i].Start, rec.Feats[i].End, clip(fs, 40), rec.Feats[i].Start, rec.Feats[i].End, clip(want, 40)), rep)
			return
		}
	}
}

func runC14(w *mon.W) {
	tmp := filepath.Join(w.Dir, fmt.Sprintf("c14-%d", w.Shard))
	os.MkdirAll(tmp, 0755)
	defer os.RemoveAll(tmp)
	var lens []int
	for rep := 0; rep < w.Pick(6, 60); rep++ {
		for L := 1; L <= 300; L++ {
			lens = append(lens, L)
		}
	}
	nRand := w.Pick(4000, 300000)
	for k := 0; k < len(lens)+nRand; k++ {
		id := fmt.Sprintf("rec-%d", k)
		if !w.Want(id, k) {
			continue
		}
		r := w.Rand(id)
		L := 0
		if k < len(lens) {
			L = lens[k]
		} else {
			L = 1 + r.Intn(5000)
		}
		rec := randGFF(r, L)
		w.Add("feature_rows_longer_than_3000_bytes", int64(rec.LongRows))
		if L%70 == 1 {
			w.Add("lengths_1_mod_70", 1)
		}
		w.SetAdd("length_mod_70", fmt.Sprintf("%02d", L%70))
		w.Max("max_sequence_length", int64(L))
		x := rec.toPoly()
		w.Begin(id, fmt.Sprintf("L=%d features=%d name=%s", L, len(rec.Feats), rec.Name))
		// ---- write direction
		var text []byte
		if p := mon.Try(func() { text = gff.Build(x) }); p != "" {
			w.Violation(id, fmt.Sprintf("gff.Build (length %d): %s", L, p), nil)
			w.End()
			continue
		}
		w.Eval(len(rec.Feats) > 0, mon.Hash64(string(text)))
		rep := map[string]any{"length": L, "gff": clip(string(text), 8000)}
		// determinism
		if t2 := gff.Build(x); string(t2) != string(text) {
			w.Violation(id, "gff.Build wrote two different texts for the same record", rep)
		}
		var y poly.Sequence
		var p string
		if k%7 == 0 {
			path := filepath.Join(tmp, "x.gff")
			p = mon.Try(func() { gff.Write(x, path); y = gff.Read(path) })
			w.Add("through_Write_Read", 1)
		} else {
			p = mon.Try(func() { y = gff.Parse(text) })
		}
		if p != "" {
			w.Violation(id, fmt.Sprintf("parsing the text gff.Build wrote for a sequence of length %d: %s", L, p), rep)
		} else {
			w.Add("write_then_read", 1)
			c14CheckParsed(w, id, "gff.Parse(gff.Build(x))", rec, y, rep)
			for _, e := range c14Earlier {
				w.Add("earlier_results_rechecked", 1)
				c14CheckParsed(w, id, "a result of an earlier gff.Parse call, inspected again after later calls", e.rec, e.got, nil)
				if string(e.text) != e.copy {
					w.Violation(id, "the text returned by an earlier gff.Build call changed after later calls", nil)
				}
			}
			if len(c14Earlier) >= 2 {
				c14Earlier = c14Earlier[1:]
			}
			c14Earlier = append(c14Earlier, c14Kept{rec, y, text, string(text)})
		}
		if own, err := readGFF(string(text)); err != nil {
			w.Violation(id, fmt.Sprintf("the harness's GFF3 reader cannot read gff.Build's output: %v", err), rep)
		} else if d := diffGFF(rec, own); d != "" {
			w.Violation(id, "an independent GFF3 reader does not recover the record from gff.Build's output: "+d, rep)
		}
		// ---- parse direction
		pad0, rag0 := c14PaddedFiles, c14RaggedFiles
		lay := rec.writeGFF(r)
		w.Add("independent_layouts_with_zero_padded_coordinates", int64(c14PaddedFiles-pad0))
		w.Add("independent_layouts_with_ragged_fasta_lines", int64(c14RaggedFiles-rag0))
		if own, err := readGFF(lay); err != nil || diffGFF(rec, own) != "" {
			w.SelfCheckFail(fmt.Sprintf("gffread(gffwrite(R)) != R: %v", err))
		} else {
			var z poly.Sequence
			how := "gff.Parse of an independently laid out file"
			parse := func() { buf := []byte(lay); z = gff.Parse(buf); unchangedThenScribble(w, id, "gff.Parse", buf, lay) }
			if k%5 == 2 {
				// the same text through the file-based entry point
				how = "gff.Read of an independently laid out file"
				path := filepath.Join(tmp, "own.gff")
				os.WriteFile(path, []byte(lay), 0644)
				parse = func() { z = gff.Read(path) }
				w.Add("independent_layouts_through_Read", 1)
			}
			if p := mon.Try(parse); p != "" {
				w.Violation(id, fmt.Sprintf("gff.Parse of an independently laid out GFF3 file (sequence length %d): %s", L, p), map[string]any{"length": L, "gff": clip(lay, 8000)})
			} else {
				w.Add("independent_layouts_parsed", 1)
				c14CheckParsed(w, id, how, rec, z, map[string]any{"length": L, "gff": clip(lay, 8000)})
			}
		}
		w.End()
		if w.WantSample() && L < 80 && len(rec.Feats) > 0 && len(rec.Feats) < 3 {
			w.Sample(map[string]any{"case": id, "gff_text": strings.Split(string(text), "\n")})
		}
	}
}
