package props

import (
	"bytes"
	"encoding/json"
	"fmt"
	"math"
	"math/rand"
	"os"
	"path/filepath"
	"reflect"
	"strings"

	"github.com/TimothyStiles/poly"
	"github.com/TimothyStiles/poly/io/genbank"
	"github.com/TimothyStiles/poly/io/gff"
	"github.com/TimothyStiles/poly/io/polyjson"

	"verif/internal/gen"
	"verif/internal/mon"
	"verif/internal/oracle"
)

func init() {
	mon.Register(&mon.Prop{
		ID: "C15", Level: "exploration",
		Rule:        "generated annotated sequences with every field of Meta, Locus, Reference, Feature and Location populated at random (location trees to depth 4, partial flags, empty and absent collections, valid non-ASCII UTF-8 and <>& in text) plus the parser outputs over generated GenBank files (C01's generator) and GFF files (C14's generator); each goes through json.Marshal -> polyjson.Parse and, for a sample, polyjson.Write -> polyjson.Read on a temp file; non-trivial = at least one feature; distinct by hash of the JSON text",
		Assumptions: []string{"equality is field by field on the Go values (reflection), nil and empty collections are equal, the parent pointer is checked by calling GetSequence", "feature sequences are evaluated by the harness's own INSDC evaluator on the in-memory Location"},
		Shards:      tierShards(8, 16), WatchdogSec: tierSecs(600, 3600),
		MinStats: func(string) map[string]int64 {
			return map[string]int64{"round_trips": 1000, "feature_sequences_compared": 2000, "genbank_conversions": 100, "gff_conversions": 100}
		},
		Run: runC15,
	})
}

var seqPtrType = reflect.TypeOf((*poly.Sequence)(nil))

// deepDiff compares two values field by field; nil and empty slices/maps are equal; *poly.Sequence pointers are skipped.
func deepDiff(path string, a, b reflect.Value) string {
	if a.Type() != b.Type() {
		return path + ": types differ"
	}
	switch a.Kind() {
	case reflect.Ptr:
		if a.Type() == seqPtrType {
			return ""
		}
		if a.IsNil() != b.IsNil() {
			return path + ": nil vs non-nil pointer"
		}
		if a.IsNil() {
			return ""
		}
		return deepDiff(path, a.Elem(), b.Elem())
	case reflect.Struct:
		for i := 0; i < a.NumField(); i++ {
			if d := deepDiff(path+"."+a.Type().Field(i).Name, a.Field(i), b.Field(i)); d != "" {
				return d
			}
		}
		return ""
	case reflect.Slice:
		if a.Len() != b.Len() {
			return fmt.Sprintf("%s: %d elements became %d", path, a.Len(), b.Len())
		}
		for i := 0; i < a.Len(); i++ {
			if d := deepDiff(fmt.Sprintf("%s[%d]", path, i), a.Index(i), b.Index(i)); d != "" {
				return d
			}
		}
		return ""
	case reflect.Map:
		if a.Len() != b.Len() {
			return fmt.Sprintf("%s: %d entries became %d", path, a.Len(), b.Len())
		}
		for _, k := range a.MapKeys() {
			bv := b.MapIndex(k)
			if !bv.IsValid() {
				return fmt.Sprintf("%s[%v]: entry lost", path, k)
			}
			if d := deepDiff(fmt.Sprintf("%s[%v]", path, k), a.MapIndex(k), bv); d != "" {
				return d
			}
		}
		return ""
	default:
		if a.Interface() != b.Interface() {
			return fmt.Sprintf("%s: %q became %q", path, clip(fmt.Sprint(a.Interface()), 80), clip(fmt.Sprint(b.Interface()), 80))
		}
		return ""
	}
}

// deepCopy returns an independent copy of a value (links to the parent sequence are left nil: deepDiff skips them).
func deepCopy(v reflect.Value) reflect.Value {
	switch v.Kind() {
	case reflect.Ptr:
		if v.IsNil() || v.Type() == seqPtrType {
			return reflect.Zero(v.Type())
		}
		n := reflect.New(v.Type().Elem())
		n.Elem().Set(deepCopy(v.Elem()))
		return n
	case reflect.Struct:
		n := reflect.New(v.Type()).Elem()
		for i := 0; i < v.NumField(); i++ {
			n.Field(i).Set(deepCopy(v.Field(i)))
		}
		return n
	case reflect.Slice:
		if v.IsNil() {
			return reflect.Zero(v.Type())
		}
		n := reflect.MakeSlice(v.Type(), v.Len(), v.Len())
		for i := 0; i < v.Len(); i++ {
			n.Index(i).Set(deepCopy(v.Index(i)))
		}
		return n
	case reflect.Map:
		if v.IsNil() {
			return reflect.Zero(v.Type())
		}
		n := reflect.MakeMapWithSize(v.Type(), v.Len())
		for _, k := range v.MapKeys() {
			n.SetMapIndex(k, deepCopy(v.MapIndex(k)))
		}
		return n
	default:
		return v
	}
}

func uniText(r *rand.Rand, n int) string {
	if r.Intn(6) == 0 {
		return ""
	}
	pieces := []string{"é", "ß", "λ", "中文", "🧬", "<", ">", "&", "\"", "\\", "\t", "\n", "a/b", " ", "ü",
		"\v", "\x01", "\x1f", "\r", "\x7f", "\u2028", "\u2029", "\\u003c", "\\u00", "\ufeff", "\x00"} // control characters and text that looks like a JSON escape are text too
	var sb strings.Builder
	for i := 1 + r.Intn(n); i > 0; i-- {
		if r.Intn(4) == 0 {
			sb.WriteString(pieces[r.Intn(len(pieces))])
		} else {
			sb.WriteString(gen.RandWord(r, 0))
		}
		if r.Intn(2) == 0 {
			sb.WriteString(" ")
		}
	}
	return sb.String()
}

// c15EmptySubs gives some leaves an empty (non-nil) SubLocations slice.
func c15EmptySubs(l *poly.Location, r *rand.Rand) {
	if len(l.SubLocations) == 0 {
		if r.Intn(2) == 0 {
			l.SubLocations = []poly.Location{}
		}
		return
	}
	for i := range l.SubLocations {
		c15EmptySubs(&l.SubLocations[i], r)
	}
}

// c15Key draws a key of a qualifier map or of Meta.Other: free text as before, or - one time in six - a word that
// also occurs as a field name of the JSON form or of the Go structs (a value that is also a key)
func c15Key(r *rand.Rand, j int) string {
	if r.Intn(6) == 0 {
		return []string{"pubMed", "pub_med", "moleculeType", "molecule_type", "sequenceLength", "sequence_length", "modificationDate", "subLocations", "sub_locations",
			"sequence_location", "SequenceLocation", "start", "end", "complement", "join", "five_prime_partial", "attributes", "Attributes", "features", "meta", "sequence",
			"name", "Name", "type", "locus", "other", "references", "gbk_location_string", "parent_sequence", "description", "hash", "hash_function", "circular", "linear"}[r.Intn(34)]
	}
	return uniText(r, 1) + fmt.Sprint(j)
}

func randAnnotated(r *rand.Rand) poly.Sequence {
	var s poly.Sequence
	L := 1 + r.Intn(400)
	empty := r.Intn(15) == 0 // an annotated record without sequence letters: its features span 0..0
	s.Sequence = randCase(r, randString(r, oracle.IUPACCodes, L), 0.5)
	if empty {
		s.Sequence = ""
	}
	m := &s.Meta
	m.Name, m.GffVersion, m.Type, m.Date = uniText(r, 3), uniText(r, 1), uniText(r, 2), uniText(r, 2)
	m.RegionStart, m.RegionEnd, m.Size = r.Intn(1000)-10, r.Intn(100000), r.Intn(1<<30)-5
	if r.Intn(5) == 0 {
		// integers are integers: values no float64 can hold exactly must survive too
		big := []int{math.MaxInt64, math.MinInt64, 1<<53 + 1, -(1<<53 + 1), 9007199254740993, 1 << 62, math.MaxInt32 + 1}
		m.RegionStart, m.RegionEnd, m.Size = big[r.Intn(len(big))], big[r.Intn(len(big))], big[r.Intn(len(big))]
	}
	m.Definition, m.Accession, m.Version, m.Keywords = uniText(r, 20), uniText(r, 2), uniText(r, 2), uniText(r, 6)
	m.Organism, m.Source, m.Origin = uniText(r, 8), uniText(r, 6), uniText(r, 3)
	m.Locus = poly.Locus{Name: uniText(r, 2), SequenceLength: fmt.Sprint(L), MoleculeType: uniText(r, 1), GenbankDivision: uniText(r, 1), ModificationDate: uniText(r, 1),
		SequenceCoding: uniText(r, 1), Circular: r.Intn(2) == 0, Linear: r.Intn(2) == 0}
	switch r.Intn(3) {
	case 0: // absent
	case 1:
		m.References = []poly.Reference{}
	default:
		for i := 1 + r.Intn(4); i > 0; i-- {
			m.References = append(m.References, poly.Reference{Index: uniText(r, 1), Authors: uniText(r, 10), Title: uniText(r, 12), Journal: uniText(r, 8), PubMed: uniText(r, 1), Remark: uniText(r, 6), Range: uniText(r, 3)})
		}
	}
	switch r.Intn(3) {
	case 0:
	case 1:
		m.Other = map[string]string{}
	default:
		m.Other = map[string]string{}
		for i := 1 + r.Intn(4); i > 0; i-- {
			m.Other[c15Key(r, i)] = uniText(r, 20)
		}
	}
	s.Description, s.SequenceHash, s.SequenceHashFunction = uniText(r, 6), uniText(r, 1), uniText(r, 1)
	nf := r.Intn(12)
	if r.Intn(4) == 0 {
		nf = 0
	}
	for i := 0; i < nf; i++ {
		x := randLoc(r, r.Intn(5), L)
		loc := toStruct(x, r.Intn(2) == 0)
		if empty {
			loc = poly.Location{}
			if r.Intn(2) == 0 {
				loc = poly.Location{Join: true, SubLocations: []poly.Location{{}, {Complement: r.Intn(2) == 0}}}
			}
		}
		if r.Intn(4) == 0 {
			c15EmptySubs(&loc, r) // a span may carry an empty, non-nil list of sub locations: still a span
		}
		if r.Intn(6) == 0 && !empty {
			// a node that is neither join nor complement and holds exactly one sub location is a value like any
			// other (it reports its child's bases); it must come back as it was written
			loc = poly.Location{Start: r.Intn(L), End: r.Intn(L + 1), FivePrimePartial: r.Intn(3) == 0, ThreePrimePartial: r.Intn(3) == 0, SubLocations: []poly.Location{loc}}
			if r.Intn(3) == 0 {
				loc = poly.Location{Join: r.Intn(2) == 0, SubLocations: []poly.Location{loc}}
			}
		}
		f := poly.Feature{Name: uniText(r, 2), Source: uniText(r, 2), Type: uniText(r, 1), Score: uniText(r, 1), Strand: uniText(r, 1), Phase: uniText(r, 1),
			GbkLocationString: uniText(r, 2), Sequence: uniText(r, 2), SequenceHash: uniText(r, 1), Description: uniText(r, 4), SequenceHashFunction: uniText(r, 1),
			SequenceLocation: loc}
		switch r.Intn(3) {
		case 0:
		case 1:
			f.Attributes = map[string]string{}
		default:
			f.Attributes = map[string]string{}
			for j := 1 + r.Intn(5); j > 0; j-- {
				f.Attributes[c15Key(r, j)] = uniText(r, 8)
			}
		}
		s.AddFeature(&f)
	}
	return s
}

// results of earlier polyjson.Parse calls are kept and re-inspected after later calls:
// a sequence read earlier must stay linked to its own features and keep its value.
type c15Kept struct {
	y    poly.Sequence
	want []string
	js   string
}

var c15Earlier []c15Kept

func c15Recheck(w *mon.W, id string) {
	for _, k := range c15Earlier {
		w.Add("earlier_results_rechecked", 1)
		for i := range k.y.Features {
			if k.want[i] == "\x00skip" {
				continue
			}
			var got string
			p := mon.Try(func() { got = k.y.Features[i].GetSequence() })
			if p != "" || got != k.want[i] {
				w.Violation(id, fmt.Sprintf("a sequence read from JSON earlier no longer reports its feature sequences after later polyjson.Parse calls: feature %d reports %q %s, expected %q", i, clip(got, 50), p, clip(k.want[i], 50)), map[string]any{"json": clip(k.js, 4000)})
				c15Earlier = nil
				return
			}
		}
	}
	if len(c15Earlier) > 3 {
		c15Earlier = c15Earlier[len(c15Earlier)-3:]
	}
}

func c15RoundTrip(w *mon.W, id string, x poly.Sequence, origin, tmp string, viaFile bool) (poly.Sequence, bool) {
	c15Recheck(w, id)
	x0 := deepCopy(reflect.ValueOf(x)) // the value as it was before any library call saw it
	// what each feature of the value reports before it is written (a writer must leave the value usable)
	beforeVals := make([]string, len(x.Features))
	beforeOK := make([]bool, len(x.Features))
	for i := range x.Features {
		i := i
		beforeOK[i] = mon.Try(func() { beforeVals[i] = x.Features[i].GetSequence() }) == ""
	}
	js, err := json.Marshal(x)
	rep := map[string]any{"origin": origin, "json": clip(string(js), 6000)}
	if err != nil {
		w.Violation(id, fmt.Sprintf("json.Marshal of an annotated sequence (%s) failed: %v", origin, err), rep)
		return x, false
	}
	w.Eval(len(x.Features) > 0, mon.Hash64(string(js)))
	var y poly.Sequence
	var p string
	if viaFile {
		path := filepath.Join(tmp, "x.json")
		p = mon.Try(func() { polyjson.Write(x, path); y = polyjson.Read(path) })
		w.Add("through_Write_Read", 1)
	} else {
		p = mon.Try(func() { y = polyjson.Parse(js) })
	}
	if p != "" {
		w.Violation(id, fmt.Sprintf("reading the JSON form back (%s): %s", origin, p), rep)
		return x, false
	}
	w.Add("round_trips", 1)
	if d := deepDiff("sequence", x0, reflect.ValueOf(y)); d != "" {
		w.Violation(id, fmt.Sprintf("JSON round trip changed the value (%s): %s", origin, d), rep)
		return y, false
	}
	keep := c15Kept{y: y, js: string(js)}
	for i := range x.Features {
		if wv, err := fromStruct(x.Features[i].SequenceLocation).Eval(x.Sequence); err == nil {
			keep.want = append(keep.want, wv)
		} else {
			keep.want = append(keep.want, "\x00skip")
		}
	}
	defer func() { c15Earlier = append(c15Earlier, keep) }()
	for i := range x.Features {
		want, err := fromStruct(x.Features[i].SequenceLocation).Eval(x.Sequence)
		if err != nil && x.Sequence == "" {
			// a record without sequence letters: a feature spanning 0..0 reports no bases, before and after
			var b0 string
			if mon.Try(func() { b0 = x.Features[i].GetSequence() }) != "" || b0 != "" {
				continue
			}
			want, err = "", nil
		}
		if err != nil {
			continue // location outside the sequence (parser outputs over odd files): not this property's subject
		}
		var before, after string
		pb := mon.Try(func() { before = x.Features[i].GetSequence() })
		pa := mon.Try(func() {
			if y.Features[i].ParentSequence == nil {
				panic("feature is not linked to its parent sequence")
			}
			after = y.Features[i].GetSequence()
		})
		w.Add("feature_sequences_compared", 1)
		if i < len(beforeOK) && beforeOK[i] && (pb != "" || before != beforeVals[i]) {
			w.Violation(id, fmt.Sprintf("feature %d of the value that was serialised reported %q before the JSON round trip (%s) and reports %q %s afterwards: writing damaged the value it was given", i, clip(beforeVals[i], 50), origin, clip(before, 50), pb), rep)
			return y, false
		}
		if pb != "" {
			continue // the input itself cannot report its sequence: C02's subject
		}
		if pa != "" || after != before || after != want {
			w.Violation(id, fmt.Sprintf("feature %d reports %q after the JSON round trip (%s), %q before; the location denotes %q (%s)", i, clip(after, 50), pa, clip(before, 50), clip(want, 50), origin), rep)
			return y, false
		}
	}
	return y, true
}

func runC15(w *mon.W) {
	n := w.Pick(15000, 600000)
	tmp := filepath.Join(w.Dir, fmt.Sprintf("c15-%d", w.Shard))
	os.MkdirAll(tmp, 0755)
	defer os.RemoveAll(tmp)
	for k := 0; k < n; k++ {
		id := fmt.Sprintf("seq-%d", k)
		if !w.Want(id, k) {
			continue
		}
		r := w.Rand(id)
		w.Begin(id, id)
		switch k % 4 {
		case 0, 1:
			x := randAnnotated(r)
			c15RoundTrip(w, id, x, "generated annotated sequence", tmp, k%20 == 0)
			if w.WantSample() && len(x.Features) > 0 && len(x.Features) < 3 && len(x.Sequence) < 60 {
				js, _ := json.Marshal(x)
				w.Sample(map[string]any{"case": id, "json": json.RawMessage(js)})
			}
		case 2:
			rec := gen.RandGBRecord(r, 1+r.Intn(800), 10, 300)
			file := gen.WriteGB(rec, gen.RandLayout(r))
			var g poly.Sequence
			if p := mon.Try(func() { buf := []byte(file); g = genbank.Parse(buf); unchangedThenScribble(w, id, "genbank.Parse", buf, file) }); p != "" {
				w.Add("parse_panics_skipped", 1)
				break
			}
			y, ok := c15RoundTrip(w, id, g, "genbank.Parse over a generated file", tmp, k%40 == 2)
			if ok {
				var t1, t2 []byte
				if p := mon.Try(func() { t1 = genbank.Build(g); t2 = genbank.Build(y) }); p != "" {
					w.Violation(id, "genbank.Build after a JSON round trip: "+p, nil)
				} else {
					w.Add("genbank_conversions", 1)
					if !bytes.Equal(t1, t2) {
						w.Violation(id, "GenBank -> JSON -> GenBank differs from writing the parsed input directly", map[string]any{"direct": clip(string(t1), 4000), "via_json": clip(string(t2), 4000)})
					}
				}
			}
		default:
			rec := randGFF(r, 1+r.Intn(600))
			lay := rec.writeGFF(r)
			if r.Intn(10) == 0 {
				// a FASTA section that stops short of the declared region: features near the end overhang it
				if i := strings.Index(lay, "##FASTA"); i > 0 && len(lay)-i > 60 {
					lay = strings.TrimRight(lay, "\n")
					lay = lay[:len(lay)-1-r.Intn(30)]
					w.Add("gff_inputs_with_short_fasta", 1)
				}
			}
			if r.Intn(8) == 0 {
				// an annotation-only file: features without the sequence they lie on
				if i := strings.Index(lay, "##FASTA"); i > 0 {
					lay = lay[:i]
					w.Add("gff_inputs_without_fasta_section", 1)
				}
			}
			var g poly.Sequence
			if p := mon.Try(func() { buf := []byte(lay); g = gff.Parse(buf); unchangedThenScribble(w, id, "gff.Parse", buf, lay) }); p != "" {
				w.Add("parse_panics_skipped", 1)
				break
			}
			y, ok := c15RoundTrip(w, id, g, "gff.Parse over a generated file", tmp, k%40 == 3)
			if ok {
				var t1, t2 []byte
				if p := mon.Try(func() { t1 = gff.Build(g); t2 = gff.Build(y) }); p != "" {
					w.Violation(id, "gff.Build after a JSON round trip: "+p, nil)
				} else {
					w.Add("gff_conversions", 1)
					if !bytes.Equal(t1, t2) {
						w.Violation(id, "GFF -> JSON -> GFF differs from writing the parsed input directly", map[string]any{"direct": clip(string(t1), 4000), "via_json": clip(string(t2), 4000)})
					}
				}
			}
		}
		w.End()
	}
}
