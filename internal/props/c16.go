package props

import (
	"encoding/json"
	"fmt"
	"math/rand"
	"os"
	"path/filepath"
	"strings"

	"github.com/TimothyStiles/poly/io/rebase"

	"verif/internal/gen"
	"verif/internal/mon"
)

func init() {
	mon.Register(&mon.Prop{
		ID: "C16", Level: "exploration",
		Rule:        "generated REBASE format-31 listings: arbitrary header prose (incl. <WORD> legends, never <n> tags), supplier table with 0..26 letters indented with blanks (as distributed) or tabs, 0..300 records with empty fields, 0..15 supplier letters per enzyme, one record in 60 with 500..10,000 isoschizomers on one line (4 KiB .. 70 KiB), extra reference lines after <8>; Parse, Read (temp file) and Export+json.Unmarshal; non-trivial = at least one record with a non-empty supplier list; distinct by hash of the listing",
		Assumptions: []string{"oracle: the abstract listing; nil, empty and [\"\"] are equal for an empty list field", "field text contains no '<' (format guarantee: tags only at line starts)"},
		Shards:      tierShards(8, 16), WatchdogSec: tierSecs(600, 3600),
		MinStats: func(string) map[string]int64 {
			return map[string]int64{"records_compared": 5000, "supplier_letters_decoded": 5000, "listings_with_blank_indent": 50, "listings_with_tab_indent": 50}
		},
		Run: runC16,
	})
}

type rbRecord struct {
	Name, Rec, Meth, Org, Source, Ref string
	Iso                               []string
	Suppliers                         string // letters
	ExtraRefs                         []string
}

func rbText(r *rand.Rand, max int) string {
	if r.Intn(5) == 0 {
		return ""
	}
	s := gen.RandText(r, max, 0)
	return strings.NewReplacer("<", "(", ">", ")").Replace(s)
}

func emptyList(l []string) bool {
	return len(l) == 0 || (len(l) == 1 && l[0] == "")
}

func sameList(want, got []string) bool {
	if emptyList(want) && emptyList(got) {
		return true
	}
	if len(want) != len(got) {
		return false
	}
	for i := range want {
		if want[i] != got[i] {
			return false
		}
	}
	return true
}

// ownRebaseRead is the harness's own reading of a format-31 listing (tags at line starts, supplier
// table lines "<indent><letter><8 blanks><name>").
func ownRebaseRead(text string) (map[byte]string, []rbRecord) {
	sup := map[byte]string{}
	var recs []rbRecord
	lines := strings.Split(text, "\n")
	in := false
	var cur *rbRecord
	for _, l := range lines {
		l = strings.TrimRight(l, "\r")
		if l == "REBASE codes for commercial sources of enzymes" {
			in = true
			continue
		}
		if strings.HasPrefix(l, "<1>") {
			in = false
		}
		if in {
			t := strings.TrimLeft(l, " \t")
			if len(t) > 9 && t[1:9] == "        " {
				sup[t[0]] = t[9:]
			}
			continue
		}
		if len(l) >= 3 && l[0] == '<' && l[2] == '>' && l[1] >= '1' && l[1] <= '8' {
			v := l[3:]
			switch l[1] {
			case '1':
				recs = append(recs, rbRecord{Name: v})
				cur = &recs[len(recs)-1]
			case '2':
				if v != "" {
					cur.Iso = strings.Split(v, ",")
				}
			case '3':
				cur.Rec = v
			case '4':
				cur.Meth = v
			case '5':
				cur.Org = v
			case '6':
				cur.Source = v
			case '7':
				cur.Suppliers = v
			case '8':
				cur.Ref = v
			}
		}
	}
	return sup, recs
}

func c16Distributed(w *mon.W) {
	id := "distributed-sample"
	repo := os.Getenv("VERIF_REPO")
	if repo == "" {
		repo = "/repo"
	}
	path := filepath.Join(repo, "io/rebase/data/rebase_test.txt")
	b, err := os.ReadFile(path)
	if err != nil {
		w.Add("distributed_sample_unavailable", 1)
		return
	}
	w.Begin(id, path)
	sup, recs := ownRebaseRead(string(b))
	var got map[string]rebase.Enzyme
	if p := mon.Try(func() { got, err = rebase.Read(path) }); p != "" || err != nil {
		w.Violation(id, fmt.Sprintf("rebase.Read of the distributed sample: %s %v", p, err), nil)
		w.End()
		return
	}
	w.Eval(true, mon.Hash64(string(b)))
	if len(got) != len(recs) {
		w.Violation(id, fmt.Sprintf("distributed sample: %d entries for %d records", len(got), len(recs)), nil)
	}
	for _, rec := range recs {
		g := got[rec.Name]
		w.Add("records_compared", 1)
		w.Add("distributed_sample_records", 1)
		var wantSup []string
		for i := 0; i < len(rec.Suppliers); i++ {
			wantSup = append(wantSup, sup[rec.Suppliers[i]])
			w.Add("supplier_letters_decoded", 1)
		}
		if g.Name != rec.Name || g.RecognitionSequence != rec.Rec || g.MethylationSite != rec.Meth || g.MicroOrganism != rec.Org || g.Source != rec.Source ||
			g.References != rec.Ref || !sameList(rec.Iso, g.Isoschizomers) || !sameList(wantSup, g.CommercialAvailability) {
			w.Violation(id, fmt.Sprintf("distributed sample, enzyme %s: file states %+v with suppliers %q, got %+v", rec.Name, rec, wantSup, g), nil)
			break
		}
	}
	w.End()
}

func runC16(w *mon.W) {
	if w.Shard == 0 && !w.Replaying() || w.Only == "distributed-sample" {
		c16Distributed(w)
	}
	n := w.Pick(4000, 150000)
	tmp := filepath.Join(w.Dir, fmt.Sprintf("c16-%d", w.Shard))
	os.MkdirAll(tmp, 0755)
	defer os.RemoveAll(tmp)
	for k := 0; k < n; k++ {
		id := fmt.Sprintf("listing-%d", k)
		if !w.Want(id, k) {
			continue
		}
		r := w.Rand(id)
		var sb strings.Builder
		// header prose
		sb.WriteString("REBASE version " + fmt.Sprint(100+r.Intn(30)) + "                                              withrefm." + fmt.Sprint(100+r.Intn(30)) + "\n\n")
		for i := r.Intn(30); i > 0; i-- {
			switch r.Intn(5) {
			case 0:
				sb.WriteString("\n")
			case 1:
				sb.WriteString("<" + []string{"ENZYME NAME", "ISOSCHIZOMERS", "RECOGNITION SEQUENCE", "METHYLATION SITE", "MICROORGANISM", "SOURCE", "COMMERCIAL AVAILABILITY", "REFERENCES"}[r.Intn(8)] + ">   " + rbText(r, 60) + "\n")
			case 2:
				sb.WriteString("    =-=-=-=-=-=-=-=-=-=-=-=-=-=-=-=-=-=-=\n")
				if r.Intn(3) == 0 {
					// a list of contents naming the sections of the file: the title of the supplier table occurs in the prose,
					// indented or padded, followed by further prose lines that begin with a capital letter
					if r.Intn(3) == 0 {
						// ... or at the left margin, as the beginning of a longer line of an index
						sb.WriteString("REBASE codes for commercial sources of enzymes" + []string{" (below)", " ..... end of header", ", then the enzymes", ": see the table"}[r.Intn(4)] + "\n")
						w.Add("prose_lines_beginning_with_the_table_title", 1)
						if r.Intn(2) == 0 {
							sb.WriteString([]string{"Contents", "Page 2", "Index", "Q", "-"}[r.Intn(5)] + "\n")
						}
					} else {
						sb.WriteString([]string{"    ", "\t", " "}[r.Intn(3)] + "REBASE codes for commercial sources of enzymes" + []string{"", "   ", " (below)"}[r.Intn(3)] + "\n")
					}
					sb.WriteString(strings.Repeat(" ", r.Intn(17)) + string("ABCDEFGHIJKLMNOPQRSTUVWXYZ"[r.Intn(26)]) + "        " + rbText(r, 40) + " contents line\n")
				}
			default:
				sb.WriteString(strings.Repeat(" ", r.Intn(17)) + rbText(r, 70) + "\n")
			}
		}
		if k%10 == 9 {
			sb.Reset() // a listing that starts with the supplier table: no header prose at all
			w.Add("listings_without_header_prose", 1)
		} else {
			sb.WriteString("\n\n")
		}
		sb.WriteString("REBASE codes for commercial sources of enzymes\n\n")
		// supplier table
		letters := "ABCDEFGHIJKLMNOPQRSTUVWXYZ"
		nsup := r.Intn(27)
		if r.Intn(8) == 0 {
			nsup = 0
		}
		perm := r.Perm(26)[:nsup]
		// keep alphabetical order as in the distributed file
		sel := make([]bool, 26)
		for _, p := range perm {
			sel[p] = true
		}
		tabs := r.Intn(2) == 0
		indent := strings.Repeat(" ", 16)
		if tabs {
			indent = strings.Repeat("\t", 1+r.Intn(3))
			w.Add("listings_with_tab_indent", 1)
		} else {
			w.Add("listings_with_blank_indent", 1)
		}
		mixedIndent := r.Intn(6) == 0
		if mixedIndent {
			w.Add("listings_with_mixed_indent", 1)
		}
		suppliers := map[byte]string{}
		aliasRows := 0
		var avail []byte
		for i := 0; i < 26; i++ {
			if !sel[i] {
				continue
			}
			name := strings.TrimSpace(rbText(r, 40))
			if name == "" {
				name = "Supplier " + string(letters[i])
			}
			if r.Intn(4) == 0 { // names aligned with several blanks or a tab inside are names like any other
				name = strings.Replace(name, " ", []string{"  ", "   ", "  -  ", " \t", "        ", strings.Repeat(" ", 9+r.Intn(12))}[r.Intn(6)], 1+r.Intn(2))
			}
			name += fmt.Sprintf("%s(%d/%02d)", []string{" ", " ", " ", strings.Repeat(" ", 8+r.Intn(10))}[r.Intn(4)], 1+r.Intn(12), r.Intn(22)) // dates now and then aligned into a column of their own
			if len(avail) > 0 && r.Intn(12) == 0 {
				name = suppliers[avail[r.Intn(len(avail))]] // a supplier kept under its old and its new letter: same text, two codes
				aliasRows++
			}
			suppliers[letters[i]] = name
			avail = append(avail, letters[i])
			lineIndent := indent
			if mixedIndent { // one table whose lines are indented differently (blanks of several widths, tabs)
				lineIndent = []string{strings.Repeat(" ", 16), strings.Repeat(" ", 4+r.Intn(20)), "\t", "\t\t", " \t"}[r.Intn(5)]
			}
			sb.WriteString(lineIndent + string(letters[i]) + "        " + name + "\n")
		}
		sb.WriteString("\n")
		// records
		nrec := r.Intn(301)
		if r.Intn(3) == 0 {
			nrec = r.Intn(12)
		}
		var recs []rbRecord
		undefinedLetters := 0
		longLines := 0
		names := map[string]bool{}
		for i := 0; i < nrec; i++ {
			rec := rbRecord{Name: gen.RandWordAlnum(r, 3+r.Intn(8))}
			if r.Intn(10) == 0 {
				rec.Name = "M." + rec.Name
			}
			if names[rec.Name] {
				continue
			}
			names[rec.Name] = true
			for j := r.Intn(8); j > 0 && r.Intn(4) != 0; j-- {
				rec.Iso = append(rec.Iso, gen.RandWordAlnum(r, 3+r.Intn(8)))
			}
			if r.Intn(12) == 0 {
				// group listings name every member of an isoschizomer group on each <2> line, the enzyme itself included;
				// and fields of one record repeat each other (the organism named after the enzyme, a duplicate in the list)
				at := r.Intn(len(rec.Iso) + 1)
				rec.Iso = append(rec.Iso[:at:at], append([]string{rec.Name}, rec.Iso[at:]...)...)
				if r.Intn(3) == 0 {
					rec.Iso = append(rec.Iso, rec.Iso[r.Intn(len(rec.Iso))])
				}
				w.Add("records_listing_their_own_name_as_isoschizomer", 1)
			}
			if r.Intn(60) == 0 {
				// a much-copied prototype: several hundred isoschizomers on one <2> line (4 KiB and more)
				for j := []int{500, 600 + r.Intn(40), 1200 + r.Intn(1500), 9000 + r.Intn(1000)}[r.Intn(4)]; j > 0; j-- {
					rec.Iso = append(rec.Iso, gen.RandWordAlnum(r, 3+r.Intn(8)))
				}
				longLines++
			}
			if r.Intn(4) != 0 {
				rec.Rec = []string{"C^GGCCG", "GACGC(5/10)", "CAGGTACCCTTTAAACCTACTAACCC(-12/-16)", "G^AATTC", "(8/13)GAYNNNNNVTC(12/7)", "GGATCC"}[r.Intn(6)]
			}
			if r.Intn(3) == 0 {
				rec.Meth = []string{"2(6)", "4(5)", "?(5)", "-2(4),3(6)"}[r.Intn(4)]
			}
			rec.Org, rec.Source, rec.Ref = rbText(r, 60), rbText(r, 40), rbText(r, 200)
			if len(avail) > 0 {
				for j := r.Intn(16); j > 0 && r.Intn(3) != 0; j-- {
					rec.Suppliers += string(avail[r.Intn(len(avail))])
				}
			}
			if len(avail) < 26 && r.Intn(25) == 0 {
				// a letter the file's own table does not define (a supplier that was dropped from the table): it decodes
				// to the empty name, the letters around it to theirs
				for {
					c := letters[r.Intn(26)]
					if _, ok := suppliers[c]; !ok {
						at := r.Intn(len(rec.Suppliers) + 1)
						rec.Suppliers = rec.Suppliers[:at] + string(c) + rec.Suppliers[at:]
						undefinedLetters++
						break
					}
				}
			}
			for j := r.Intn(4); j > 0 && r.Intn(2) == 0; j-- {
				x := rbText(r, 150)
				if x != "" {
					rec.ExtraRefs = append(rec.ExtraRefs, x)
				}
			}
			recs = append(recs, rec)
			fmt.Fprintf(&sb, "<1>%s\n<2>%s\n<3>%s\n<4>%s\n<5>%s\n<6>%s\n<7>%s\n<8>%s\n", rec.Name, strings.Join(rec.Iso, ","), rec.Rec, rec.Meth, rec.Org, rec.Source, rec.Suppliers, rec.Ref)
			for _, x := range rec.ExtraRefs {
				sb.WriteString(x + "\n")
			}
			sb.WriteString("\n")
		}
		listing := sb.String()
		if k%4 == 3 {
			listing = strings.TrimRight(listing, "\n") // a file whose last line is not terminated
			w.Add("listings_without_final_newline", 1)
		}
		w.Begin(id, listing)
		nontriv := false
		for _, rec := range recs {
			if rec.Suppliers != "" {
				nontriv = true
			}
		}
		w.Add("record_lines_longer_than_4_KiB", int64(longLines))
		w.Add("supplier_rows_repeating_the_text_of_another_letter", int64(aliasRows))
		w.Add("supplier_letters_the_table_does_not_define", int64(undefinedLetters))
		w.Eval(nontriv, mon.Hash64(listing))
		rep := map[string]any{"listing": clip(listing, 20000), "indent": map[bool]string{true: "tabs", false: "blanks"}[tabs]}
		var got map[string]rebase.Enzyme
		entry := "Parse"
		var p string
		if k%5 == 0 {
			entry = "Read"
			path := filepath.Join(tmp, "listing.txt")
			os.WriteFile(path, []byte(listing), 0644)
			var err error
			p = mon.Try(func() { got, err = rebase.Read(path) })
			if err != nil {
				w.Violation(id, fmt.Sprintf("rebase.Read: %v", err), rep)
			}
		} else {
			p = mon.Try(func() { buf := []byte(listing); got = rebase.Parse(buf); unchangedThenScribble(w, id, "rebase.Parse", buf, listing) })
		}
		if p != "" {
			w.Violation(id, fmt.Sprintf("rebase.%s on a well-formed listing (%d records, %d suppliers, %s indent): %s", entry, len(recs), nsup, rep["indent"], p), rep)
			w.End()
			continue
		}
		if len(got) != len(recs) {
			w.Violation(id, fmt.Sprintf("rebase.%s returned %d entries for %d records", entry, len(got), len(recs)), rep)
		}
		bad := false
		compare := func(got map[string]rebase.Enzyme, what string) {
			for _, rec := range recs {
				g, ok := got[rec.Name]
				w.Add("records_compared", 1)
				if !ok {
					w.Violation(id, fmt.Sprintf("enzyme %q is missing from %s", rec.Name, what), rep)
					bad = true
					break
				}
				var wantSup []string
				for i := 0; i < len(rec.Suppliers); i++ {
					wantSup = append(wantSup, suppliers[rec.Suppliers[i]])
					w.Add("supplier_letters_decoded", 1)
				}
				var d []string
				chk := func(f, a, b string) {
					if a != b {
						d = append(d, fmt.Sprintf("%s: file states %q, got %q", f, clip(a, 80), clip(b, 80)))
					}
				}
				chk("name", rec.Name, g.Name)
				chk("recognition sequence", rec.Rec, g.RecognitionSequence)
				chk("methylation site", rec.Meth, g.MethylationSite)
				chk("organism", rec.Org, g.MicroOrganism)
				chk("source", rec.Source, g.Source)
				chk("first reference", rec.Ref, g.References)
				if !sameList(rec.Iso, g.Isoschizomers) {
					d = append(d, fmt.Sprintf("isoschizomers: file states %v, got %v", rec.Iso, g.Isoschizomers))
				}
				if !sameList(wantSup, g.CommercialAvailability) {
					d = append(d, fmt.Sprintf("commercial availability %q: the file's supplier table gives %q, got %q (%s indent)", rec.Suppliers, wantSup, g.CommercialAvailability, rep["indent"]))
				}
				if len(d) > 0 {
					w.Violation(id, fmt.Sprintf("enzyme %s in %s: %s", rec.Name, what, joinDiffs(d, 3)), rep)
					bad = true
					break
				}
			}
		}
		compare(got, "the result")
		// export parses back to the same map
		if !bad {
			var ex []byte
			if p := mon.Try(func() { ex = rebase.Export(got) }); p != "" {
				w.Violation(id, "rebase.Export: "+p, rep)
			} else {
				retainBytesCheck(w, id, "Export", ex, fmt.Sprintf("rebase.Export of %d entries", len(got)))
				var back map[string]rebase.Enzyme
				if err := json.Unmarshal(ex, &back); err != nil {
					w.Violation(id, fmt.Sprintf("rebase.Export output is not valid JSON: %v", err), rep)
				} else {
					w.Add("exports_parsed_back", 1)
					if len(back) != len(got) {
						w.Violation(id, fmt.Sprintf("Export: %d entries came back for %d", len(back), len(got)), rep)
					}
					// what was exported states what the listing states, and the map handed to Export still does
					compare(back, "the JSON text Export wrote")
					if !bad {
						compare(got, "the map after Export was called on it")
					}
					for name, a := range got {
						b := back[name]
						if a.Name != b.Name || a.RecognitionSequence != b.RecognitionSequence || a.MethylationSite != b.MethylationSite || a.MicroOrganism != b.MicroOrganism ||
							a.Source != b.Source || a.References != b.References || !sameList(a.Isoschizomers, b.Isoschizomers) || !sameList(a.CommercialAvailability, b.CommercialAvailability) {
							w.Violation(id, fmt.Sprintf("Export: entry %s does not parse back to itself: %+v vs %+v", name, a, b), rep)
							break
						}
					}
				}
			}
		}
		w.End()
		if w.WantSample() && len(recs) > 0 && len(recs) < 4 && nsup > 0 && nsup < 5 {
			w.Sample(map[string]any{"case": id, "listing_tail": strings.Split(listing[strings.Index(listing, "REBASE codes"):], "\n")})
		}
	}
}
