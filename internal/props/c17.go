package props

import (
	"fmt"
	"strings"

	"github.com/TimothyStiles/poly/primers"

	"verif/internal/mon"
	"verif/internal/oracle"
)

func init() {
	mon.Register(&mon.Prop{
		ID: "C17", Level: "exploration",
		Rule:        "sequence clause: every order 1..N completely (all 4^n windows counted in a bitset); barcode clause: lengths n..60 x orders 2..8 x 0..5 bans of length 2..8 x 0..3 filter predicates, random and adversarial (ban list ordered so that skipping a later ban slides the window onto an earlier one, onto the reverse complement of one, or a filter skip slides it onto a ban); non-trivial = a call with at least one ban or filter that returned at least one barcode, or a sequence-clause order; distinct by hash of the call arguments",
		Assumptions: []string{"checks are written directly from the definitions (own reverse complement); the de Bruijn sequence used as reference for the substring clause is poly's own output, validated by the sequence clause in the same run"},
		Shards:      tierShards(8, 16), WatchdogSec: tierSecs(600, 3600),
		MinStats: func(string) map[string]int64 {
			return map[string]int64{"barcodes_checked": 1000, "adversarial_lists": 50}
		},
		Run: runC17,
	})
}

type bcFilter struct {
	name string
	fn   func(string) bool
}

func gcFrac(s string) float64 {
	if len(s) == 0 {
		return 0
	}
	return float64(strings.Count(s, "G")+strings.Count(s, "C")) / float64(len(s))
}

func maxRun(s string) int {
	best, cur := 0, 0
	for i := 0; i < len(s); i++ {
		if i > 0 && s[i] == s[i-1] {
			cur++
		} else {
			cur = 1
		}
		if cur > best {
			best = cur
		}
	}
	return best
}

var bcFilters = []bcFilter{
	{"gc<=0.7", func(s string) bool { return gcFrac(s) <= 0.7 }},
	{"gc>=0.2", func(s string) bool { return gcFrac(s) >= 0.2 }},
	{"no-run>=4", func(s string) bool { return maxRun(s) < 4 }},
	{"not-start-G", func(s string) bool { return !strings.HasPrefix(s, "G") }},
	{"not-end-AT", func(s string) bool { return !strings.HasSuffix(s, "A") && !strings.HasSuffix(s, "T") }},
	{"no-TATA", func(s string) bool { return !strings.Contains(s, "TATA") }},
}

var deBruijnCache = map[int]string{}

// deBruijn returns poly's sequence of order n (judged completely by c17Sequence; here it is the text the
// barcodes are cut from). The call is journalled like every other call into poly.
func deBruijn(w *mon.W, n int) string {
	if s, ok := deBruijnCache[n]; ok {
		return s
	}
	w.Begin(fmt.Sprintf("debruijn-%d", n), fmt.Sprintf("NucleobaseDeBruijnSequence(%d) as the text barcodes are cut from", n))
	s := primers.NucleobaseDeBruijnSequence(n)
	w.End()
	deBruijnCache[n] = s
	return s
}

func c17Sequence(w *mon.W, id string, n int) {
	var s string
	p := mon.Try(func() { s = primers.NucleobaseDeBruijnSequence(n) })
	w.Eval(true, mon.Hash64("seq", fmt.Sprint(n)))
	if p != "" {
		w.Violation(id, fmt.Sprintf("NucleobaseDeBruijnSequence(%d) %s", n, p), nil)
		return
	}
	want := ipow(4, n) + int64(n) - 1
	if int64(len(s)) != want {
		w.Violation(id, fmt.Sprintf("NucleobaseDeBruijnSequence(%d) has length %d, want 4^n+n-1 = %d", n, len(s), want), nil)
		return
	}
	seen := make([]uint64, (ipow(4, n)+63)/64)
	code := func(c byte) int {
		switch c {
		case 'A':
			return 0
		case 'T':
			return 1
		case 'G':
			return 2
		case 'C':
			return 3
		}
		return -1
	}
	mask := ipow(4, n) - 1
	var cur int64
	valid := 0
	for i := 0; i < len(s); i++ {
		c := code(s[i])
		if c < 0 {
			w.Violation(id, fmt.Sprintf("order %d: letter %q at %d is not one of A,T,G,C", n, s[i], i), nil)
			return
		}
		cur = (cur<<2 | int64(c)) & mask
		valid++
		if valid >= n {
			if seen[cur/64]&(1<<uint(cur%64)) != 0 {
				w.Violation(id, fmt.Sprintf("order %d: the %d-letter word %q occurs more than once (second time at %d)", n, n, s[i-n+1:i+1], i-n+1), nil)
				return
			}
			seen[cur/64] |= 1 << uint(cur%64)
			w.Add("windows_checked", 1)
		}
	}
	// length is 4^n+n-1 and no window repeats => all 4^n words occur exactly once
}

func c17Barcodes(w *mon.W, id string, L, n int, bans []string, filters []bcFilter, adversarial string) {
	fns := make([]func(string) bool, len(filters))
	for i, f := range filters {
		fns[i] = f.fn
	}
	c17BarcodesWith(w, id, L, n, append([]string(nil), bans...), bans, fns, filters, adversarial)
}

// c17BarcodesWith hands passBans and fns to the library and judges the result against the harness's own
// copies (bans, filters): the caller's slices may be shared with earlier and later calls.
func c17BarcodesWith(w *mon.W, id string, L, n int, passBans, bans []string, fns []func(string) bool, filters []bcFilter, adversarial string) {
	var fnames []string
	for _, f := range filters {
		fnames = append(fnames, f.name)
	}
	rep := map[string]any{"length": L, "order": n, "bans": bans, "filters": fnames, "construction": adversarial}
	var got []string
	p := mon.Try(func() {
		if len(bans) == 0 && len(filters) == 0 && L%2 == 0 {
			got = primers.CreateBarcodes(L, n)
		} else {
			got = primers.CreateBarcodesWithBannedSequences(L, n, passBans, fns)
		}
	})
	w.Eval((len(bans) > 0 || len(filters) > 0) && len(got) > 0, mon.Hash64(fmt.Sprint(L, n), strings.Join(bans, ","), strings.Join(fnames, ",")))
	if p != "" {
		w.Violation(id, fmt.Sprintf("CreateBarcodesWithBannedSequences(%d,%d,%v,%v) %s", L, n, bans, fnames, p), rep)
		return
	}
	db := deBruijn(w, n)
	words := map[string]int{}
	for bi, b := range got {
		w.Add("barcodes_checked", 1)
		if len(b) != L {
			w.Violation(id, fmt.Sprintf("barcode %d %q has length %d, requested %d", bi, b, len(b), L), rep)
			return
		}
		if !strings.Contains(db, b) {
			w.Violation(id, fmt.Sprintf("barcode %d %q is not a substring of the order-%d De Bruijn sequence", bi, b, n), rep)
			return
		}
		for i := 0; i+n <= len(b); i++ {
			wd := b[i : i+n]
			if other, ok := words[wd]; ok {
				w.Violation(id, fmt.Sprintf("barcodes %d and %d share the %d-letter word %q", other, bi, n, wd), rep)
				return
			}
			words[wd] = bi
		}
		for _, ban := range bans {
			if strings.Contains(b, ban) {
				w.Violation(id, fmt.Sprintf("barcode %d %q contains the banned sequence %q (length %d, order %d, bans %v, filters %v, %s)", bi, b, ban, L, n, bans, fnames, adversarial), rep)
				return
			}
			if rc := oracle.MustRevComp(ban); strings.Contains(b, rc) {
				w.Violation(id, fmt.Sprintf("barcode %d %q contains %q, the reverse complement of the banned sequence %q (length %d, order %d, bans %v, filters %v, %s)", bi, b, rc, ban, L, n, bans, fnames, adversarial), rep)
				return
			}
		}
		for _, f := range filters {
			if !f.fn(b) {
				w.Violation(id, fmt.Sprintf("barcode %d %q is rejected by the supplied filter %s (length %d, order %d, bans %v, filters %v, %s)", bi, b, f.name, L, n, bans, fnames, adversarial), rep)
				return
			}
		}
	}
	if len(got) == 0 {
		w.Add("empty_lists", 1)
	}
	if w.WantSample() && len(got) > 0 && len(bans) > 1 {
		w.Sample(map[string]any{"length": L, "order": n, "bans": bans, "filters": fnames, "construction": adversarial, "n_barcodes": len(got), "first": got[0]})
	}
}

func runC17(w *mon.W) {
	idx := 0
	maxOrder := w.Pick(11, 11)
	for n := 1; n <= maxOrder; n++ {
		id := fmt.Sprintf("seq-order-%d", n)
		idx++
		if !w.Want(id, idx) {
			continue
		}
		w.Begin(id, id)
		c17Sequence(w, id, n)
		w.End()
		w.Add("orders_checked_completely", 1)
	}
	w.Extra("exhaustive_parts", []string{fmt.Sprintf("De Bruijn sequence of every order 1..%d: all windows", maxOrder)})

	// the same orders asked for again and again, in turn: every call returns the sequence, whatever the
	// package remembers of earlier calls
	nCycle := w.Pick(16, 48)
	for k := 0; k < nCycle; k++ {
		id := fmt.Sprintf("seq-cycle-%d", k)
		idx++
		if !w.Want(id, idx) {
			continue
		}
		r := w.Rand(id)
		first := map[int]string{}
		w.Begin(id, "orders 1..10 requested in turn, 12 times over")
		bad := false
		for rep := 0; rep < 12 && !bad; rep++ {
			orders := r.Perm(10)
			for _, o := range orders {
				n := o + 1
				if n == 10 && rep%4 != 0 {
					continue // the million-letter sequence only every fourth turn
				}
				var s string
				if p := mon.Try(func() { s = primers.NucleobaseDeBruijnSequence(n) }); p != "" {
					w.Violation(id, fmt.Sprintf("NucleobaseDeBruijnSequence(%d), turn %d: %s", n, rep, p), nil)
					bad = true
					break
				}
				w.Eval(true, mon.Hash64(id, fmt.Sprint(rep, n)))
				w.Add("repeated_sequence_requests", 1)
				if f, ok := first[n]; !ok {
					first[n] = s
					if int64(len(s)) != ipow(4, n)+int64(n)-1 {
						w.Violation(id, fmt.Sprintf("NucleobaseDeBruijnSequence(%d) has length %d, want 4^n+n-1 = %d (turn %d of orders requested in turn)", n, len(s), ipow(4, n)+int64(n)-1, rep), nil)
						bad = true
						break
					}
				} else if s != f {
					w.Violation(id, fmt.Sprintf("NucleobaseDeBruijnSequence(%d) returned %d letters on turn %d and %d letters (a different text) on its first turn", n, len(s), rep, len(f)), nil)
					bad = true
					break
				}
			}
		}
		w.End()
	}

	nLists := w.Pick(15000, 200000)
	for i := 0; i < nLists; i++ {
		id := fmt.Sprintf("bc-%d", i)
		idx++
		if !w.Want(id, idx) {
			continue
		}
		r := w.Rand(id)
		n := 2 + r.Intn(7)
		if r.Intn(2) == 0 {
			n = 2 + r.Intn(3)
		}
		L := n + r.Intn(61-n)
		if r.Intn(2) == 0 {
			L = n + r.Intn(12)
		}
		db := deBruijn(w, n)
		stride := L - (n - 1)
		var bans []string
		var filters []bcFilter
		constr := "random"
		nf := r.Intn(4)
		for _, k := range r.Perm(len(bcFilters))[:nf] {
			filters = append(filters, bcFilters[k])
		}
		mode := r.Intn(4)
		if mode == 0 || L+stride+10 >= len(db) {
			nb := r.Intn(6)
			for j := 0; j < nb; j++ {
				bl := 2 + r.Intn(7)
				if r.Intn(2) == 0 && bl <= len(db) { // a ban taken from the sequence itself
					st := r.Intn(len(db) - bl + 1)
					bans = append(bans, db[st:st+bl])
				} else {
					bans = append(bans, randString(r, "ATGC", bl))
				}
			}
			if len(bans) > 0 && len(bans) < 4 && r.Intn(3) == 0 {
				// a degenerate site written out by hand: two bans that differ in one letter only (the last, the first or
				// any), and now and then the same ban twice
				b := []byte(bans[r.Intn(len(bans))])
				if r.Intn(2) == 0 && len(db) >= 8 {
					// the longest bans of the scope, taken from the sequence so that a window would hold them
					bl := 7 + r.Intn(2)
					st := r.Intn(len(db) - bl + 1)
					b = []byte(db[st : st+bl])
					bans = append(bans, string(b))
				}
				pos := []int{len(b) - 1, len(b) - 1, 0, r.Intn(len(b))}[r.Intn(4)]
				switch r.Intn(6) {
				case 0: // the same ban twice
				case 1, 2: // the partner letter (A<->T, G<->C)
					b[pos] = "TACG"[strings.IndexByte("ATGC", b[pos])]
				default:
					b[pos] = "ATGC"[(strings.IndexByte("ATGC", b[pos])+1+r.Intn(3))%4]
				}
				if r.Intn(2) == 0 {
					bans = append(bans, string(b))
				} else {
					bans = append([]string{string(b)}, bans...)
				}
				constr = "random, with a twin ban"
			}
			if n >= 6 && r.Intn(4) == 0 {
				// a ban from the very end of the sequence, where it wraps around to its beginning
				bl := 2 + r.Intn(7)
				if bl <= len(db) {
					st := len(db) - bl - r.Intn(min(n, len(db)-bl+1))
					if st < 0 {
						st = 0
					}
					bans = append(bans, db[st:st+bl])
				}
			}
		} else {
			// adversarial: window k starts at s; later ban B lies inside it; earlier ban A lies in the
			// region newly exposed after the window has slid past B.
			nwin := (len(db) - L) / stride
			if nwin < 1 {
				nwin = 1
			}
			s := r.Intn(nwin) * stride
			bl := 2 + r.Intn(min(7, L-1))
			pos := s + r.Intn(L-bl+1)
			B := db[pos : pos+bl]
			newStart := pos + 1
			lo, hi := s+L, newStart+L // newly exposed region [lo,hi)
			if hi > len(db) {
				hi = len(db)
			}
			if hi-lo >= 2 {
				al := 2 + r.Intn(min(7, hi-lo-1))
				ap := lo + r.Intn(hi-lo-al+1)
				A := db[ap : ap+al]
				switch mode {
				case 1:
					constr = "adversarial: skipping ban[1] re-introduces ban[0]"
					bans = []string{A, B}
				case 2:
					constr = "adversarial: skipping ban[1] re-introduces the reverse complement of ban[0]"
					bans = []string{oracle.MustRevComp(A), B}
				default:
					constr = "adversarial: a filter skip slides the window onto a ban"
					bans = []string{A}
					first := db[s : s+1]
					filters = append(filters, bcFilter{"not-start-" + first, func(x string) bool { return !strings.HasPrefix(x, first) }})
				}
				for j := r.Intn(3); j > 0; j-- {
					bans = append(bans, randString(r, "ATGC", 2+r.Intn(7)))
				}
				w.Add("adversarial_lists", 1)
			} else {
				bans = []string{B}
			}
		}
		w.Begin(id, fmt.Sprintf("L=%d n=%d bans=%v filters=%d %s", L, n, bans, len(filters), constr))
		if i%4 == 3 && (len(bans) > 0 || len(filters) > 0) {
			// one ban slice and one filter slice serve two requests: first short barcodes with the first few
			// filters, then the request proper with all of them
			w.Add("lists_requested_after_another_request_on_the_same_slices", 1)
			passBans := append(make([]string, 0, len(bans)+2), bans...)
			fnsAll := make([]func(string) bool, len(filters), len(filters)+2)
			for k, f := range filters {
				fnsAll[k] = f.fn
			}
			k1 := 0
			if len(filters) > 0 {
				k1 = r.Intn(len(filters))
			}
			L1 := n + r.Intn(4)
			w.End()
			w.Begin(id, fmt.Sprintf("L=%d n=%d bans=%v first %d of %d filters, then L=%d with all: %s", L1, n, bans, k1, len(filters), L, constr))
			c17BarcodesWith(w, id, L1, n, passBans, bans, fnsAll[:k1], filters[:k1], constr+"; first request on shared slices")
			c17BarcodesWith(w, id, L, n, passBans, bans, fnsAll, filters, constr+fmt.Sprintf("; after a request for length %d with the first %d filters on the same slices", L1, k1))
			w.End()
			continue
		}
		c17Barcodes(w, id, L, n, bans, filters, constr)
		w.End()
	}
}
