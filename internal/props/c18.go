package props

import (
	"encoding/json"
	"fmt"
	"math"
	"math/rand"
	"sort"
	"strings"

	"github.com/TimothyStiles/poly/transform/codon"

	"verif/internal/mon"
)

func init() {
	mon.Register(&mon.Prop{
		ID: "C18", Level: "exploration",
		Rule: "all 25 genetic codes x pairs of tables (deep copies) re-weighted from constructed random coding sequences in which every amino acid occurs x a cut-off grid over [-1,2] containing 0, 1, values next to them, realised usage shares and their +/-1.5/10000 neighbours; each compromise is also computed with the arguments swapped and used for an Optimize call; non-trivial = every (pair, cut-off) case; distinct by hash of (weights of both tables, cut-off)",
		Assumptions: []string{
			"oracle: exact integer/rational arithmetic on the harness's own snapshots of the two inputs",
			"tolerances of the property: a usage share 'scaled to 10000' is an integer on that scale rounded either way, the mean of two such integers is compared with +/-1; a share within 1/10000 of the cut-off may fall on either side",
		},
		Shards: tierShards(16, 16), WatchdogSec: tierSecs(900, 3600),
		MinStats: func(string) map[string]int64 {
			return map[string]int64{"compromise_weights_checked": 10000, "cutoff_rejections_checked": 100, "zeroed_by_cutoff": 100, "add_weights_checked": 10000}
		},
		Run: runC18,
	})
}

// randomFullTable re-weights a deep copy of table id so that every letter has a positive total.
func randomFullTable(id int, r *rand.Rand) (codon.Table, plainTable) {
	return reweightFull(deepTable(id), r)
}

// reweightFull re-weights t in place (OptimizeTable writes into the table it is called on) from a fresh
// constructed coding sequence in which every amino acid occurs.
func reweightFull(t codon.Table, r *rand.Rand) (codon.Table, plainTable) {
	base := snapshot(t)
	weights := map[string]int{}
	for _, l := range base.letters() {
		var cs []string
		for c := range base.AA[l] {
			cs = append(cs, c)
		}
		sort.Strings(cs)
		for _, c := range cs {
			switch r.Intn(5) {
			case 0:
				weights[c] = 0
			case 1:
				weights[c] = 1 + r.Intn(3)
			default:
				weights[c] = 1 + r.Intn(120)
			}
		}
		weights[cs[r.Intn(len(cs))]] += 1 + r.Intn(40)
	}
	t = t.OptimizeTable(codingSequenceFor(r, weights))
	return t, snapshot(t)
}

func sameAssignment(a, b plainTable) string {
	if strings.Join(a.letters(), "") != strings.Join(b.letters(), "") {
		return fmt.Sprintf("letters %v vs %v", a.letters(), b.letters())
	}
	for _, l := range a.letters() {
		if len(a.AA[l]) != len(b.AA[l]) {
			return fmt.Sprintf("amino acid %s has codons %v vs %v", l, a.AA[l], b.AA[l])
		}
		for c := range a.AA[l] {
			if _, ok := b.AA[l][c]; !ok {
				return fmt.Sprintf("codon %s of %s is missing", c, l)
			}
		}
	}
	if strings.Join(a.Starts, ",") != strings.Join(b.Starts, ",") {
		return fmt.Sprintf("start codons %v vs %v", a.Starts, b.Starts)
	}
	if strings.Join(a.Stops, ",") != strings.Join(b.Stops, ",") {
		return fmt.Sprintf("stop codons %v vs %v", a.Stops, b.Stops)
	}
	return ""
}

func runC18(w *mon.W) {
	idx := 0
	// ---- cut-offs taken from an observed usage fraction: phenylalanine has TTT at p% and TTC at (100-p)% in both
	// tables (totals 100, 1000 or 200), and the cut-off is p/100 as a floating-point number - for many p the product
	// 10000*cutOff lies just below the whole number, the share itself is exact
	for blk := 0; blk < 10; blk++ {
		id := fmt.Sprintf("fraction-%d", blk)
		idx++
		if !w.Want(id, idx) {
			continue
		}
		r := w.Rand(id)
		w.Begin(id, fmt.Sprintf("cut-offs %d%%..%d%% equal to the share of TTT in both tables", blk*10+1, blk*10+10))
		for pct := blk*10 + 1; pct <= blk*10+10 && pct < 100; pct++ {
			t1, _ := randomFullTable(1, r)
			t2, _ := randomFullTable(1, r)
			for ti, t := range []*codon.Table{&t1, &t2} {
				total := []int{100, 1000, 200}[(pct+ti)%3]
				for ai := range t.AminoAcids {
					if t.AminoAcids[ai].Letter != "F" {
						continue
					}
					for ci := range t.AminoAcids[ai].Codons {
						if t.AminoAcids[ai].Codons[ci].Triplet == "TTT" {
							t.AminoAcids[ai].Codons[ci].Weight = total * pct / 100
						} else {
							t.AminoAcids[ai].Codons[ci].Weight = total - total*pct/100
						}
					}
				}
			}
			w.Add("cutoffs_equal_to_a_shared_usage_fraction", 1)
			c18Compromise(w, id, 1, t1, t2, snapshot(t1), snapshot(t2), float64(pct)/100, r)
		}
		w.End()
	}
	nPairs := w.Pick(100, 3000)
	for _, tid := range tableIDs {
		for k := 0; k < nPairs; k++ {
			id := fmt.Sprintf("pair-t%d-%d", tid, k)
			idx++
			if !w.Want(id, idx) {
				continue
			}
			r := w.Rand(id)
			t1, s1 := randomFullTable(tid, r)
			t2, s2 := randomFullTable(tid, r)
			if k%8 == 7 {
				// tables of whole genomes: the same proportions with counts in the hundreds of thousands and millions
				for ti, t := range []*codon.Table{&t1, &t2} {
					f := []int{700, 5000, 20000}[r.Intn(3)] + r.Intn(300)
					for ai := range t.AminoAcids {
						for ci := range t.AminoAcids[ai].Codons {
							if wt := t.AminoAcids[ai].Codons[ci].Weight; wt > 0 {
								t.AminoAcids[ai].Codons[ci].Weight = wt*f + r.Intn(f)
							}
						}
					}
					if ti == 0 {
						s1 = snapshot(t1)
					} else {
						s2 = snapshot(t2)
					}
				}
				w.Add("pairs_with_genome_sized_counts", 1)
			}
			if k%8 == 3 || k%8 == 5 {
				// tables that are related: the second is the first again, the first with every count multiplied (the
				// same organism counted over more genes, AddCodonTable(t, t)), or a table in which every codon has one and
				// the same count (a fresh default table, a sequence using every codon equally often); either may come first
				b, _ := json.Marshal(t1)
				t2 = codon.ParseCodonJSON(b)
				m := []int{1, 2, 3, 10, 1000}[r.Intn(5)]
				flat := k%8 == 5
				for ai := range t2.AminoAcids {
					for ci := range t2.AminoAcids[ai].Codons {
						if flat {
							t2.AminoAcids[ai].Codons[ci].Weight = m
						} else {
							t2.AminoAcids[ai].Codons[ci].Weight *= m
						}
					}
				}
				if r.Intn(2) == 0 {
					t1, t2 = t2, t1
				}
				s1, s2 = snapshot(t1), snapshot(t2)
				if flat {
					w.Add("pairs_with_a_flat_table", 1)
				} else {
					w.Add("pairs_of_proportional_tables", 1)
				}
			}
			rep := map[string]any{"table": tid, "first": s1.AA, "second": s2.AA}
			w.Begin(id, fmt.Sprintf("table %d first=%v second=%v", tid, s1.AA, s2.AA))

			// ---- AddCodonTable
			var sum codon.Table
			if p := mon.Try(func() { sum = codon.AddCodonTable(t1, t2) }); p != "" {
				w.Violation(id, "AddCodonTable "+p, rep)
			} else {
				ss := snapshot(sum)
				w.Eval(true, mon.Hash64("add", fmt.Sprint(s1.AA), fmt.Sprint(s2.AA)))
				if d := sameAssignment(s1, ss); d != "" {
					w.Violation(id, "AddCodonTable changed the genetic code of the first table: "+d, rep)
				} else {
					for _, l := range s1.letters() {
						for c, w1 := range s1.AA[l] {
							w.Add("add_weights_checked", 1)
							if ss.AA[l][c] != w1+s2.AA[l][c] {
								w.Violation(id, fmt.Sprintf("AddCodonTable: codon %s (%s) has weight %d, the inputs have %d + %d", c, l, ss.AA[l][c], w1, s2.AA[l][c]), rep)
							}
						}
					}
				}
				// inputs untouched
				if fmt.Sprint(snapshot(t1)) != fmt.Sprint(s1) || fmt.Sprint(snapshot(t2)) != fmt.Sprint(s2) {
					w.Violation(id, "AddCodonTable modified one of its inputs", rep)
				}
			}

			// ---- AddCodonTable with a table in which some amino acids do not occur at all (a coding sequence
			// without a stop codon, a short gene lacking W or C): still the sum, on every call
			if k%2 == 0 {
				t3 := deepTable(tid)
				base := snapshot(t3)
				weights := map[string]int{}
				letters := base.letters()
				absent := map[string]bool{"*": r.Intn(3) != 0}
				for j := r.Intn(3); j > 0; j-- {
					absent[letters[r.Intn(len(letters))]] = true
				}
				for _, l := range letters {
					for c := range base.AA[l] {
						if !absent[l] && r.Intn(4) != 0 {
							weights[c] = 1 + r.Intn(60)
						}
					}
				}
				t3 = t3.OptimizeTable(codingSequenceFor(r, weights))
				s3 := snapshot(t3)
				for rep2 := 0; rep2 < 6; rep2++ {
					for _, pr := range [][2]int{{1, 3}, {3, 1}} {
						ta, sa, tb, sb := t1, s1, t3, s3
						if pr[0] == 3 {
							ta, sa, tb, sb = t3, s3, t1, s1
						}
						var sum3 codon.Table
						if p := mon.Try(func() { sum3 = codon.AddCodonTable(ta, tb) }); p != "" {
							w.Violation(id, "AddCodonTable with a table lacking some amino acids: "+p, rep)
							continue
						}
						w.Add("add_calls_with_a_table_lacking_amino_acids", 1)
						ss := snapshot(sum3)
						for _, l := range sa.letters() {
							for c, wa := range sa.AA[l] {
								if ss.AA[l][c] != wa+sb.AA[l][c] {
									w.Violation(id, fmt.Sprintf("AddCodonTable (call %d on the same pair; one table has no codon of %v): codon %s (%s) has weight %d, the inputs have %d + %d", rep2, absent, c, l, ss.AA[l][c], wa, sb.AA[l][c]), rep)
								}
							}
						}
					}
				}
			}

			// ---- cut-off grid
			var shares []float64
			for _, s := range []plainTable{s1, s2} {
				for _, l := range s.letters() {
					for _, wt := range s.AA[l] {
						shares = append(shares, float64(wt)/float64(s.total(l)))
					}
				}
			}
			cuts := []float64{-1, -0.25, -1e-9, 0, 1e-9, 0.05, 0.1, 0.5, 1 - 1e-9, 1, 1 + 1e-9, 1.5, 2, r.Float64()*3 - 1}
			for j := 0; j < 4; j++ {
				sh := shares[r.Intn(len(shares))]
				cuts = append(cuts, sh, sh+1.5e-4, sh-1.5e-4)
			}
			nc := w.Pick(12, 20)
			r.Shuffle(len(cuts), func(i, j int) { cuts[i], cuts[j] = cuts[j], cuts[i] })
			// what arithmetic on percentages leaves behind next to the ends of the range: 0.3-0.2-0.1 < 0, the
			// neighbours of 0 and 1 among the floating-point numbers
			tiny := []float64{0.3 - 0.2 - 0.1, -5e-17, math.Nextafter(0, -1), math.Nextafter(1, 2), 1 + 4e-16, -1e-300}
			cuts = append([]float64{0, 1, -1e-9, 1 + 1e-9, tiny[r.Intn(len(tiny))], tiny[r.Intn(len(tiny))]}, cuts...)
			nc += 2
			if len(cuts) > nc {
				cuts = cuts[:nc]
			}
			for _, c := range cuts {
				c18Compromise(w, id, tid, t1, t2, s1, s2, c, r)
			}
			// a compromise table is a table: combined once more (three organisms), its rows - every one summing to
			// about 10000 - are scaled like any other
			if k%4 == 1 {
				if ct, err := codon.CompromiseCodonTable(t1, t2, 0); err == nil {
					full := true
					sct := snapshot(ct)
					for _, l := range sct.letters() {
						if sct.total(l) == 0 {
							full = false
						}
					}
					if full {
						w.Add("compromise_tables_combined_again", 1)
						t3, s3 := randomFullTable(tid, r)
						for _, c := range []float64{0, 0.05, 0.2 * r.Float64()} {
							c18Compromise(w, id, tid, ct, t3, sct, s3, c, r)
						}
					}
				}
			}
			// ---- the same two tables re-weighted in place and combined again: the result must follow the
			// weights the tables hold now, not those of the earlier combinations
			for round := 0; round < 2; round++ {
				if round == 0 {
					t2, s2 = reweightFull(t2, r)
				} else {
					t1, s1 = reweightFull(t1, r)
				}
				w.Add("recombined_after_reweighting_in_place", 1)
				var sum2 codon.Table
				if p := mon.Try(func() { sum2 = codon.AddCodonTable(t1, t2) }); p == "" {
					ss := snapshot(sum2)
					for _, l := range s1.letters() {
						for c, w1 := range s1.AA[l] {
							if ss.AA[l][c] != w1+s2.AA[l][c] {
								w.Violation(id, fmt.Sprintf("AddCodonTable after re-weighting an input in place: codon %s (%s) has weight %d, the inputs now have %d + %d", c, l, ss.AA[l][c], w1, s2.AA[l][c]), rep)
							}
						}
					}
				}
				for _, c := range []float64{0, cuts[len(cuts)-1], 0.05 + 0.3*r.Float64()} {
					c18Compromise(w, id, tid, t1, t2, s1, s2, c, r)
				}
			}
			w.End()
			if w.WantSample() {
				w.Sample(map[string]any{"case": id, "table": tid, "first_L": s1.AA["L"], "second_L": s2.AA["L"], "cutoffs": cuts})
			}
		}
	}
}

func c18Compromise(w *mon.W, id string, tid int, t1, t2 codon.Table, s1, s2 plainTable, c float64, r *rand.Rand) {
	rep := map[string]any{"table": tid, "first": s1.AA, "second": s2.AA, "cutoff": c}
	var ct, cs codon.Table
	var err, errS error
	p := mon.Try(func() {
		ct, err = codon.CompromiseCodonTable(t1, t2, c)
		cs, errS = codon.CompromiseCodonTable(t2, t1, c)
	})
	w.Eval(true, mon.Hash64("comp", fmt.Sprint(s1.AA), fmt.Sprint(s2.AA), fmt.Sprint(c)))
	if p != "" {
		w.Violation(id, fmt.Sprintf("CompromiseCodonTable(cutoff %g) %s", c, p), rep)
		return
	}
	if c < 0 || c > 1 {
		w.Add("cutoff_rejections_checked", 1)
		if err == nil || errS == nil {
			w.Violation(id, fmt.Sprintf("CompromiseCodonTable accepted the out-of-range cut-off %g", c), rep)
		}
		return
	}
	if err != nil || errS != nil {
		w.Violation(id, fmt.Sprintf("CompromiseCodonTable rejected the in-range cut-off %g: %v %v", c, err, errS), rep)
		return
	}
	sc, scs := snapshot(ct), snapshot(cs)
	if d := sameAssignment(s1, sc); d != "" {
		w.Violation(id, fmt.Sprintf("CompromiseCodonTable(cutoff %g) changed the genetic code of the first table: %s", c, d), rep)
		return
	}
	for _, l := range s1.letters() {
		T1, T2 := s1.total(l), s2.total(l)
		for cd, w1 := range s1.AA[l] {
			w2 := s2.AA[l][cd]
			got := sc.AA[l][cd]
			w.Add("compromise_weights_checked", 1)
			rho1, rho2 := float64(w1)/float64(T1), float64(w2)/float64(T2)
			// integer-scaled shares, rounded either way
			f1, c1 := (10000*w1)/T1, (10000*w1+T1-1)/T1
			f2, c2 := (10000*w2)/T2, (10000*w2+T2-1)/T2
			meanOK := func(g int) bool {
				for _, a := range []int{f1, c1} {
					for _, b := range []int{f2, c2} {
						if math.Abs(float64(g)-float64(a+b)/2) <= 1 {
							return true
						}
					}
				}
				return false
			}
			// "below the cut-off" on the 10000 scale, whichever way an implementation rounds: certainly below when
			// even the rounded-up share is under the rounded-down cut-off, certainly not below when even the
			// rounded-down share reaches the rounded-up cut-off (a share of exactly 0 is not below a cut-off of 0)
			cutLo, cutHi := int(math.Floor(10000*c)), int(math.Ceil(10000*c))
			below := c1 < cutLo || c2 < cutLo
			above := f1 >= cutHi && f2 >= cutHi
			switch {
			case below:
				w.Add("zeroed_by_cutoff", 1)
				if got != 0 {
					w.Violation(id, fmt.Sprintf("cut-off %g: codon %s (%s) has shares %.5f and %.5f, one of them below the cut-off under any rounding, but weight %d instead of 0", c, cd, l, rho1, rho2, got), rep)
				}
			case above:
				if !meanOK(got) {
					w.Violation(id, fmt.Sprintf("cut-off %g: codon %s (%s) has shares %.5f and %.5f (x10000: %d..%d and %d..%d), weight %d is not their mean +/-1", c, cd, l, rho1, rho2, f1, c1, f2, c2, got), rep)
				}
			default:
				w.Add("within_tolerance_of_cutoff", 1)
				if got != 0 && !meanOK(got) {
					w.Violation(id, fmt.Sprintf("cut-off %g: codon %s (%s) weight %d is neither 0 nor the mean of shares %.5f, %.5f", c, cd, l, got, rho1, rho2), rep)
				}
			}
			// symmetry (weights)
			if d := got - scs.AA[l][cd]; d > 1 || d < -1 {
				// a share inside the tolerance zone may legitimately be cut on one side only if rounding differs; exact implementations are symmetric
				if below || above {
					w.Violation(id, fmt.Sprintf("cut-off %g: compromise is not symmetric for codon %s (%s): %d vs %d with the tables swapped", c, cd, l, got, scs.AA[l][cd]), rep)
				}
			}
		}
	}
	// inputs untouched
	if fmt.Sprint(snapshot(t1)) != fmt.Sprint(s1) || fmt.Sprint(snapshot(t2)) != fmt.Sprint(s2) {
		w.Violation(id, "CompromiseCodonTable modified one of its inputs", rep)
	}
	// Optimize on the compromise table
	var letters []string
	for _, l := range sc.letters() {
		if sc.total(l) > 0 {
			letters = append(letters, l)
		}
	}
	// an amino acid the cut-off has left without any codon cannot be optimised for: asking for it must
	// not produce a gene (any codon chosen for it is rarer than the cut-off in one of the organisms)
	var zeroed []string
	for _, l := range sc.letters() {
		if sc.total(l) == 0 {
			zeroed = append(zeroed, l)
		}
	}
	if len(zeroed) > 0 && len(letters) > 0 {
		z := zeroed[r.Intn(len(zeroed))]
		prot := letters[r.Intn(len(letters))] + z + letters[r.Intn(len(letters))]
		var dna string
		var oerr error
		w.Add("optimize_calls_with_an_amino_acid_the_cutoff_removed", 1)
		if p := mon.Try(func() { dna, oerr = codon.Optimize(prot, ct) }); p != "" {
			w.Violation(id, fmt.Sprintf("Optimize(%q) on the compromise table (cut-off %g), where %s has no codon left: %s", prot, c, z, p), rep)
			return
		} else if oerr == nil {
			w.Violation(id, fmt.Sprintf("a gene optimised with the compromise table (cut-off %g) encodes %s although every codon of %s is rarer than the cut-off in one of the inputs: Optimize(%q) = %q", c, z, z, prot, dna), rep)
			return
		}
	}
	if len(letters) == 0 {
		return
	}
	n := 20 + r.Intn(200)
	var sb strings.Builder
	for i := 0; i < n; i++ {
		sb.WriteString(letters[r.Intn(len(letters))])
	}
	prot := sb.String()
	var dna string
	if p := mon.Try(func() { dna, err = codon.Optimize(prot, ct) }); p != "" || err != nil || len(dna) != 3*n {
		w.Violation(id, fmt.Sprintf("Optimize on the compromise table (cut-off %g): %s %v", c, p, err), rep)
		return
	}
	owner := sc.codonOwner()
	for i := 0; i < n; i++ {
		cd := dna[3*i : 3*i+3]
		l := string(prot[i])
		w.Add("optimized_codons_checked", 1)
		if owner[cd] != l {
			w.Violation(id, fmt.Sprintf("Optimize on the compromise table encoded %s as %s (assigned to %q)", l, cd, owner[cd]), rep)
			return
		}
		rho1 := float64(s1.AA[l][cd]) / float64(s1.total(l))
		rho2 := float64(s2.AA[l][cd]) / float64(s2.total(l))
		if rho1 < c-1e-4 || rho2 < c-1e-4 {
			w.Violation(id, fmt.Sprintf("a gene optimised with the compromise table (cut-off %g) uses codon %s for %s, whose usage shares in the inputs are %.5f and %.5f", c, cd, l, rho1, rho2), rep)
			return
		}
	}
}
