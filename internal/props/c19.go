package props

import (
	"fmt"
	"math"
	"strings"

	"github.com/TimothyStiles/poly/primers"

	"verif/internal/mon"
	"verif/internal/oracle"
)

func init() {
	mon.Register(&mon.Prop{
		ID: "C19", Level: "exploration",
		Rule: "complete enumeration of A/C/G/T oligos of length 2..L on a grid of oligo x sodium x magnesium concentrations, plus random oligos to length 200 in random case under random conditions; every grid line is also a monotonicity chain; non-trivial = every (oligo, condition) pair (all have >= 1 neighbour pair); distinct by hash of (oligo, conditions)",
		Assumptions: []string{
			"oracle: own implementation of the stated formula with the ten unified nearest-neighbour parameters transcribed by Watson-Crick pair class; floating point compared with relative tolerance 1e-9",
			"monotonicity is asserted only between conditions that differ by >= 1% in exactly one concentration and that both lie in the duplex-forming regime (dH < 0 and dS + R ln(C/f) < 0)",
		},
		Shards: tierShards(8, 16), WatchdogSec: tierSecs(600, 3600),
		Run: runC19,
	})
}

func relClose(a, b float64) bool {
	if a == b {
		return true
	}
	if math.IsNaN(a) || math.IsNaN(b) || math.IsInf(a, 0) || math.IsInf(b, 0) {
		return false
	}
	d := math.Abs(a - b)
	m := math.Max(math.Abs(a), math.Abs(b))
	return d <= 1e-9*m || d <= 1e-12
}

type tmObs struct{ tm, dH, dS float64 }

func c19Call(w *mon.W, id, s string, c, na, mg float64) (tmObs, bool) {
	var o tmObs
	p := mon.Try(func() { o.tm, o.dH, o.dS = primers.SantaLucia(s, c, na, mg) })
	w.Eval(true, mon.Hash64(s, fmt.Sprint(c, na, mg)))
	rep := map[string]any{"oligo": s, "oligo_conc": c, "na": na, "mg": mg}
	if p != "" {
		w.Violation(id, fmt.Sprintf("SantaLucia(%q,%g,%g,%g) %s", s, c, na, mg, p), rep)
		return o, false
	}
	wt, wh, ws := oracle.SantaLucia(s, c, na, mg)
	if !relClose(o.dH, wh) || !relClose(o.dS, ws) || !relClose(o.tm, wt) {
		w.Violation(id, fmt.Sprintf("SantaLucia(%q,%g,%g,%g) = (Tm %.9g, dH %.9g, dS %.9g), formula gives (Tm %.9g, dH %.9g, dS %.9g)", s, c, na, mg, o.tm, o.dH, o.dS, wt, wh, ws), rep)
		return o, false
	}
	return o, true
}

func inRegime(s string, o tmObs, c, na, mg float64) bool {
	return o.dH < 0 && oracle.TmDenominator(s, c, na, mg) < 0
}

func c19Oligo(w *mon.W, id, s string, cs, nas, mgs []float64) {
	obs := make([][][]tmObs, len(cs))
	ok := make([][][]bool, len(cs))
	for i, c := range cs {
		obs[i] = make([][]tmObs, len(nas))
		ok[i] = make([][]bool, len(nas))
		for j, na := range nas {
			obs[i][j] = make([]tmObs, len(mgs))
			ok[i][j] = make([]bool, len(mgs))
			for k, mg := range mgs {
				obs[i][j][k], ok[i][j][k] = c19Call(w, id, s, c, na, mg)
			}
		}
	}
	rep := map[string]any{"oligo": s}
	// enthalpy independent of all concentrations
	base := obs[0][0][0]
	for i := range cs {
		for j := range nas {
			for k := range mgs {
				if ok[i][j][k] && !relClose(obs[i][j][k].dH, base.dH) {
					w.Violation(id, fmt.Sprintf("dH of %q depends on the concentrations: %.12g vs %.12g", s, obs[i][j][k].dH, base.dH), rep)
				}
			}
		}
	}
	// monotonicity along each axis
	chk := func(a, b tmObs, okA, okB bool, ca, na1, mg1, cb, nb, mgb float64, axis string) {
		if !okA || !okB {
			return
		}
		if !inRegime(s, a, ca, na1, mg1) || !inRegime(s, b, cb, nb, mgb) {
			w.Add("monotonicity_pairs_outside_regime", 1)
			return
		}
		w.Add("monotonicity_pairs_checked", 1)
		if !(b.tm > a.tm) {
			w.Violation(id, fmt.Sprintf("Tm of %q does not strictly increase with %s: (%g,%g,%g) -> %.9g, (%g,%g,%g) -> %.9g", s, axis, ca, na1, mg1, a.tm, cb, nb, mgb, b.tm), rep)
		}
	}
	for i := range cs {
		for j := range nas {
			for k := range mgs {
				if i+1 < len(cs) {
					chk(obs[i][j][k], obs[i+1][j][k], ok[i][j][k], ok[i+1][j][k], cs[i], nas[j], mgs[k], cs[i+1], nas[j], mgs[k], "oligo concentration")
				}
				if j+1 < len(nas) {
					chk(obs[i][j][k], obs[i][j+1][k], ok[i][j][k], ok[i][j+1][k], cs[i], nas[j], mgs[k], cs[i], nas[j+1], mgs[k], "sodium concentration")
				}
				if k+1 < len(mgs) {
					chk(obs[i][j][k], obs[i][j][k+1], ok[i][j][k], ok[i][j][k+1], cs[i], nas[j], mgs[k], cs[i], nas[j], mgs[k+1], "magnesium concentration")
				}
			}
		}
	}
	// case independence
	lo := strings.ToLower(s)
	var a, b tmObs
	a.tm, a.dH, a.dS = primers.SantaLucia(strings.ToUpper(s), cs[0], nas[0], mgs[0])
	b.tm, b.dH, b.dS = primers.SantaLucia(lo, cs[0], nas[0], mgs[0])
	if a != b {
		w.Violation(id, fmt.Sprintf("SantaLucia depends on letter case for %q: %v vs %v", s, a, b), rep)
	}
	// default helper
	var mt float64
	if p := mon.Try(func() { mt = primers.MeltingTemp(s) }); p != "" {
		w.Violation(id, fmt.Sprintf("MeltingTemp(%q) %s", s, p), rep)
	} else {
		dt, _, _ := primers.SantaLucia(s, 500e-9, 50e-3, 0)
		ot, _, _ := oracle.SantaLucia(s, 500e-9, 50e-3, 0)
		if !relClose(mt, dt) || !relClose(mt, ot) {
			w.Violation(id, fmt.Sprintf("MeltingTemp(%q) = %.9g, SantaLucia at 500 nM / 50 mM / 0 gives %.9g (formula %.9g)", s, mt, dt, ot), rep)
		}
	}
	// Marmur-Doty
	u := strings.ToUpper(s)
	want := 2*float64(strings.Count(u, "A")+strings.Count(u, "T")) + 4*float64(strings.Count(u, "G")+strings.Count(u, "C")) - 7
	var md float64
	if p := mon.Try(func() { md = primers.MarmurDoty(s) }); p != "" || md != want {
		w.Violation(id, fmt.Sprintf("MarmurDoty(%q) = %v %s, expected %v", s, md, p, want), rep)
	}
	w.Add("oligos", 1)
}

func logGrid(lo, hi float64, n int) []float64 {
	out := make([]float64, n)
	for i := range out {
		out[i] = lo * math.Pow(hi/lo, float64(i)/float64(n-1))
	}
	return out
}

func runC19(w *mon.W) {
	cs := logGrid(1e-9, 1e-3, w.Pick(5, 10))
	nas := logGrid(1e-3, 1, w.Pick(5, 10))
	mgs := append([]float64{0}, logGrid(1e-4, 0.1, w.Pick(3, 5))...)
	maxL := w.Pick(7, 8)
	w.Extra("exhaustive_parts", []string{fmt.Sprintf("all A/C/G/T oligos of length 2..%d on a %dx%dx%d condition grid", maxL, len(cs), len(nas), len(mgs))})
	w.Extra("grid", map[string]any{"oligo_M": cs, "sodium_M": nas, "magnesium_M": mgs})
	idx := 0
	const blk = 256
	for n := 2; n <= maxL; n++ {
		total := ipow(4, n)
		for start := int64(0); start < total; start += blk {
			id := fmt.Sprintf("enum-n%d-b%d", n, start/blk)
			idx++
			if !w.Want(id, idx) {
				continue
			}
			end := start + blk
			if end > total {
				end = total
			}
			w.Begin(id, fmt.Sprintf("oligos %d..%d of length %d", start, end-1, n))
			for i := start; i < end; i++ {
				c19Oligo(w, id, nthString("ACGT", n, i), cs, nas, mgs)
			}
			w.End()
		}
	}
	nRand := w.Pick(20000, 200000)
	for i := 0; i < nRand; i++ {
		id := fmt.Sprintf("rand-%d", i)
		idx++
		if !w.Want(id, idx) {
			continue
		}
		r := w.Rand(id)
		n := 2 + r.Intn(199)
		if r.Intn(3) == 0 {
			n = 2 + r.Intn(30)
		}
		s := randString(r, "ACGT", n)
		if i%10 == 9 {
			// low complexity: homopolymers, short repeats, one base dominating (a pair occurring up to 199 times)
			switch r.Intn(3) {
			case 0:
				s = strings.Repeat(randString(r, "ACGT", 1), n)
			case 1:
				u := randString(r, "ACGT", 1+r.Intn(3))
				s = strings.Repeat(u, n/len(u)+1)[:n]
			default:
				b := []byte(strings.Repeat(randString(r, "ACGT", 1), n))
				for k := r.Intn(4); k > 0; k-- {
					b[r.Intn(n)] = "ACGT"[r.Intn(4)]
				}
				s = string(b)
			}
			w.Add("low_complexity_oligos", 1)
		}
		if r.Intn(6) == 0 { // self-complementary
			h := randString(r, "ACGT", n/2+1)
			s = h + oracle.MustRevComp(h)
		}
		if i%10 == 7 {
			// a long self-complementary oligo with exactly one pair broken (point variants of a palindromic probe), the
			// broken pair at every depth in turn; or the palindrome with one to three unpaired letters added at each end
			half := 21 + r.Intn(79)
			h := randString(r, "ACGT", half)
			pal := []byte(h + oracle.MustRevComp(h))
			if r.Intn(3) == 0 {
				fl := 1 + r.Intn(3)
				s = strings.Repeat("C", fl) + string(pal) + strings.Repeat("C", fl)
				if len(s) > 200 {
					s = s[:200]
				}
			} else {
				pos := (i / 10) % half
				if r.Intn(2) == 0 {
					pos = len(pal) - 1 - pos
				}
				pal[pos] = "ACGT"[(strings.IndexByte("ACGT", pal[pos])+1+r.Intn(3))%4]
				s = string(pal)
			}
			w.Add("palindromic_oligos_with_one_broken_pair_or_flanks", 1)
		}
		if i%10 == 4 {
			// hairpin / inverted-repeat designs: arms of 8..70 bases that are reverse complements of each other around
			// a loop that is not (self-complementary only if the whole oligo is)
			arm := randString(r, "ACGT", []int{8 + r.Intn(20), 30 + r.Intn(6), 32 + r.Intn(39)}[r.Intn(3)])
			loop := randString(r, "ACGT", 1+r.Intn(200-2*len(arm)-1+1))
			if len(arm)*2+len(loop) > 200 {
				loop = loop[:200-2*len(arm)]
			}
			s = arm + loop + oracle.MustRevComp(arm)
			w.Add("oligos_with_reverse_complementary_arms", 1)
		}
		s = randCase(r, s, []float64{0, 0.5, 1}[r.Intn(3)])
		if r.Intn(5) == 0 {
			s = caseEdges(r, s)
		}
		rc := func(lo, hi float64) []float64 {
			a := lo * math.Pow(hi/lo, r.Float64())
			return []float64{a, a * (1.01 + r.Float64()*5)}
		}
		mg := []float64{0, 1e-4 * math.Pow(1000, r.Float64())}
		if r.Intn(2) == 0 {
			mg = rc(1e-4, 0.05)
		}
		if i%5 == 2 {
			mg = rc(1e-11, 1e-5) // trace magnesium (free Mg after chelation, nanomolar titration series)
			w.Add("cases_with_trace_magnesium", 1)
		}
		w.Begin(id, s)
		c19Oligo(w, id, s, rc(1e-9, 1e-4), rc(1e-3, 0.5), mg)
		w.End()
		w.Max("max_oligo_length", int64(len(s)))
		if w.WantSample() && len(s) < 40 {
			t, h, e := oracle.SantaLucia(s, 500e-9, 50e-3, 0)
			w.Sample(map[string]any{"oligo": s, "formula_Tm_default_conditions": t, "dH": h, "dS": e})
		}
	}
}
