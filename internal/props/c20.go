package props

import (
	"bytes"
	"compress/gzip"
	"encoding/xml"
	"fmt"
	"io"
	"math/rand"
	"os"
	"path/filepath"
	"regexp"
	"runtime"
	"strings"
	"sync"
	"sync/atomic"
	"time"

	"github.com/TimothyStiles/poly/io/uniprot"

	"verif/internal/gen"
	"verif/internal/mon"
)

func init() {
	mon.Register(&mon.Prop{
		ID: "C20", Race: true, Level: "fault_enumeration",
		Rule: "Uniprot XML documents laid out by the harness's own writer (0..20 entries quick, up to 200 thorough; 1..3 accessions (one entry in five of the larger documents: 4..12), 1..2 names, sequence of 1..300 residues (one in 30: 4,000..65,700) with attributes, further child elements), plain and gzip; faults: truncation at EVERY byte offset of small documents (complete), truncation of the gzip stream, and for larger documents deletion/insertion of '<' or '>', mismatched close tags and byte flips in text and tag names; consumers: sequential (entries to close, then errors; the documented usage) and concurrent, channel capacities 0..100, readers that dribble 1..k bytes; non-trivial = every damaged stream and every document with >= 2 entries; distinct by hash of (stream bytes, consumer kind, capacities)",
		Assumptions: []string{
			"whether a damaged text is still well-formed, and which entries are complete before the first error, is decided by the harness's own encoding/xml token loop (standard library, not poly); only then are errors optional",
			"after damage the parser may deliver further (partial) entries and any number >= 1 of errors up to the bound len(input)+100; only the prefix of complete entries is compared",
			"termination is restated as bounded progress: a wait-for cycle (parser goroutine in [chan send] with the error channel full while the only consumer is in [chan receive] on the entry channel, seen in 3 consecutive stop-the-world goroutine dumps) or more than len(input)+100 errors is a violation; the 60 s wall-clock watchdog per run only yields inconclusive",
		},
		Shards: tierShards(16, 16), WatchdogSec: tierSecs(900, 3600),
		MinStats: func(string) map[string]int64 {
			return map[string]int64{"truncation_offsets": 3000, "corruptions": 200, "wellformed_documents": 25, "sequential_consumer_runs": 1000, "concurrent_consumer_runs": 1000}
		},
		Run: runC20,
	})
}

type upEntry struct {
	Acc, Names []string
	Seq        string
}

// upDate draws a valid calendar date (xs:date, YYYY-MM-DD), with leap days, month ends and year ends over-represented.
func upDate(r *rand.Rand) string {
	y := 1986 + r.Intn(40)
	leap := func(y int) bool { return y%4 == 0 && (y%100 != 0 || y%400 == 0) }
	days := []int{31, 28, 31, 30, 31, 30, 31, 31, 30, 31, 30, 31}
	switch r.Intn(6) {
	case 0: // 29 February of a leap year (2000 is one, by the 400 rule)
		y = []int{1988, 1992, 1996, 2000, 2004, 2008, 2012, 2016, 2020, 2024, 2000, 2000}[r.Intn(12)]
		return fmt.Sprintf("%04d-02-29", y)
	case 1: // last day of a month
		m := r.Intn(12)
		d := days[m]
		if m == 1 && leap(y) {
			d = 29
		}
		return fmt.Sprintf("%04d-%02d-%02d", y, m+1, d)
	case 2:
		return fmt.Sprintf("%04d-%02d-01", y, 1+r.Intn(12))
	}
	m := r.Intn(12)
	return fmt.Sprintf("%04d-%02d-%02d", y, m+1, 1+r.Intn(days[m]))
}

// upEvidence draws an optional evidence attribute: an xs:list of integers, i.e. items separated by any
// amount of white space (blank, tab, line break, also as character references), possibly at the ends.
func upEvidence(r *rand.Rand) string {
	if r.Intn(3) != 0 {
		return ""
	}
	seps := []string{" ", " ", "  ", "\t", "&#9;", "&#10;", " \n "}
	var sb strings.Builder
	sb.WriteString(" evidence=\"")
	if r.Intn(6) == 0 {
		sb.WriteString(" ")
	}
	n := r.Intn(4)
	for i := 0; i < n; i++ {
		if i > 0 {
			sb.WriteString(seps[r.Intn(len(seps))])
		}
		fmt.Fprint(&sb, 1+r.Intn(40))
	}
	if r.Intn(6) == 0 {
		sb.WriteString(" ")
	}
	sb.WriteString("\"")
	return sb.String()
}

func randUniprotDoc(r *rand.Rand, n int, small bool) ([]upEntry, string) {
	var sb strings.Builder
	sb.WriteString("<?xml version=\"1.0\" encoding=\"UTF-8\"?>\n<uniprot xmlns=\"http://uniprot.org/uniprot\"")
	if !small {
		sb.WriteString("\n xmlns:xsi=\"http://www.w3.org/2001/XMLSchema-instance\"\n xsi:schemaLocation=\"http://uniprot.org/uniprot http://www.uniprot.org/docs/uniprot.xsd\"")
	}
	sb.WriteString(">\n")
	var es []upEntry
	for i := 0; i < n; i++ {
		var e upEntry
		nAcc := 1 + r.Intn(3)
		if !small && r.Intn(5) == 0 {
			nAcc = 4 + r.Intn(9) // a merged entry keeps the accessions of all its predecessors
		}
		for j := nAcc; j > 0; j-- {
			e.Acc = append(e.Acc, strings.ToUpper(gen.RandWordAlnum(r, 6)))
		}
		for j := 1 + r.Intn(2); j > 0; j-- {
			e.Names = append(e.Names, strings.ToUpper(gen.RandWordAlnum(r, 4))+"_"+strings.ToUpper(gen.RandWordAlnum(r, 5)))
		}
		sl := 1 + r.Intn(300)
		if small {
			sl = 1 + r.Intn(25)
		}
		if !small && r.Intn(30) == 0 {
			sl = []int{4000 + r.Intn(200), 5000 + r.Intn(30000), 65400 + r.Intn(300)}[r.Intn(3)] // titin-sized sequences
		}
		e.Seq = randString(r, "ACDEFGHIKLMNPQRSTVWY", sl)
		if r.Intn(8) == 0 && sl > 12 {
			// sequence text laid out over several indented lines: the text of the element, verbatim
			var wrapped strings.Builder
			wd := 10 * (1 + r.Intn(6))
			for i := 0; i < sl; i += wd {
				end := i + wd
				if end > sl {
					end = sl
				}
				wrapped.WriteString("\n    " + e.Seq[i:end])
			}
			e.Seq = wrapped.String() + "\n  "
		}
		es = append(es, e)
		fmt.Fprintf(&sb, "<entry dataset=\"%s\" created=\"%s\" modified=\"%s\" version=\"%d\"", []string{"Swiss-Prot", "TrEMBL"}[r.Intn(2)], upDate(r), upDate(r), 1+r.Intn(200))
		if r.Intn(2) == 0 {
			sb.WriteString(" xmlns=\"http://uniprot.org/uniprot\"")
		}
		sb.WriteString(">\n")
		// the same text can be spelled in several ways in XML: plain, as a CDATA section, with a numeric
		// character reference, with a comment in the middle; end tags may hold white space
		spell := func(t string) string {
			switch r.Intn(8) {
			case 0:
				return "<![CDATA[" + t + "]]>"
			case 1:
				return fmt.Sprintf("&#x%X;", t[0]) + t[1:]
			case 2:
				return fmt.Sprintf("&#%d;", t[0]) + t[1:]
			case 3:
				k := r.Intn(len(t) + 1)
				return t[:k] + "<!-- " + gen.RandWordAlnum(r, 5) + " -->" + t[k:]
			}
			return t
		}
		endTag := func(name string) string {
			if r.Intn(6) == 0 {
				return "</" + name + " >"
			}
			return "</" + name + ">"
		}
		if r.Intn(5) == 0 {
			sb.WriteString("  <!-- entry " + fmt.Sprint(i) + " of " + fmt.Sprint(n) + " -->\n")
		}
		for _, a := range e.Acc {
			sb.WriteString("  <accession>" + spell(a) + endTag("accession") + "\n")
		}
		for _, nm := range e.Names {
			sb.WriteString("  <name>" + spell(nm) + endTag("name") + "\n")
		}
		if !small || r.Intn(2) == 0 {
			sb.WriteString("  <protein>\n    <recommendedName>\n      <fullName" + upEvidence(r) + ">Protein " + gen.RandWordAlnum(r, 6) + []string{" &amp; co", " &amp; co", " A&lt;B&gt;3", " (&gt;90%) &amp; more"}[r.Intn(4)] + "</fullName>\n    </recommendedName>\n  </protein>\n")
		}
		if !small {
			sb.WriteString("  <organism>\n    <name type=\"scientific\">" + gen.RandWordAlnum(r, 8) + " virus</name>\n    <dbReference type=\"NCBI Taxonomy\" id=\"" + fmt.Sprint(1000+r.Intn(9000)) + "\"" + upEvidence(r) + "/>\n  </organism>\n")
			if r.Intn(2) == 0 {
				sb.WriteString("  <comment type=\"similarity\"" + upEvidence(r) + ">\n    <text>Belongs to the <![CDATA[<MGF>]]> family.</text>\n  </comment>\n  <keyword id=\"KW-0244\"" + upEvidence(r) + ">Early protein</keyword>\n")
			}
			sb.WriteString("  <proteinExistence type=\"inferred from homology\"/>\n")
		}
		fmt.Fprintf(&sb, "  <sequence length=\"%d\" mass=\"%d\" checksum=\"%016X\" modified=\"%s\" version=\"1\">%s</sequence>\n</entry>\n", len(strings.Join(strings.Fields(e.Seq), "")), 110*len(e.Seq), r.Uint64(), upDate(r), spell(e.Seq))
		if r.Intn(6) == 0 {
			sb.WriteString("<!-- between entries -->\n")
		}
		if r.Intn(12) == 0 {
			sb.WriteString("<?harness between entries?>\n")
		}
	}
	if r.Intn(2) == 0 {
		sb.WriteString("<copyright>\nCopyrighted by the UniProt Consortium\n</copyright>\n")
	}
	sb.WriteString("</uniprot>")
	if r.Intn(2) == 0 {
		sb.WriteString("\n")
	}
	return es, sb.String()
}

// ownExtract is the harness's own reading of a (possibly damaged) stream with the standard
// library's token loop: the entries that are complete before the first error, and that error.
func ownExtract(data []byte) ([]upEntry, error) {
	out, _, err := ownExtractEnds(data)
	return out, err
}

// ownExtractEnds also returns the input offset at which each complete entry ends.
func ownExtractEnds(data []byte) ([]upEntry, []int64, error) {
	d := xml.NewDecoder(bytes.NewReader(data))
	var out []upEntry
	var ends []int64
	var cur *upEntry
	depth, entryDepth := 0, -1
	field := ""
	var text strings.Builder
	for {
		tok, err := d.Token()
		if err != nil {
			if err == io.EOF {
				return out, ends, nil
			}
			return out, ends, err
		}
		switch t := tok.(type) {
		case xml.StartElement:
			depth++
			if t.Name.Local == "entry" && cur == nil {
				cur = &upEntry{}
				entryDepth = depth
			} else if cur != nil && depth == entryDepth+1 {
				field = t.Name.Local
				text.Reset()
			}
		case xml.CharData:
			if cur != nil && depth == entryDepth+1 && field != "" {
				text.Write(t)
			}
		case xml.EndElement:
			if cur != nil && depth == entryDepth+1 {
				switch field {
				case "accession":
					cur.Acc = append(cur.Acc, text.String())
				case "name":
					cur.Names = append(cur.Names, text.String())
				case "sequence":
					cur.Seq = text.String()
				}
				field = ""
			}
			if cur != nil && depth == entryDepth {
				out = append(out, *cur)
				ends = append(ends, d.InputOffset())
				cur = nil
				entryDepth = -1
			}
			depth--
		}
	}
}

func sameEntry(a upEntry, b uniprot.Entry) bool {
	return strings.Join(a.Acc, "|") == strings.Join(b.Accession, "|") && strings.Join(a.Names, "|") == strings.Join(b.Name, "|") && a.Seq == b.Sequence.Value
}

type c20Result struct {
	entries       []uniprot.Entry
	nErrors       int
	firstErr      string
	returned      bool
	panicMsg      string
	entriesClosed bool
	errorsClosed  bool
	waitForCycle  string
	tooManyErrors bool
	timedOut      bool
}

var parseGoroutineRe = regexp.MustCompile(`(?m)^goroutine \d+ \[([^\]]*)\]:\n(?:.*\n)*?.*uniprot\.Parse`)

// goroutineState finds the scheduler state of the goroutine whose stack contains marker.
func goroutineStates(dump string, marker string) []string {
	var states []string
	for _, g := range strings.Split(dump, "\n\n") {
		if !strings.Contains(g, marker) {
			continue
		}
		if i := strings.Index(g, "["); i >= 0 {
			if j := strings.Index(g[i:], "]"); j >= 0 {
				states = append(states, g[i+1:i+j])
			}
		}
	}
	return states
}

// allPrefixed: every listed goroutine (the current run's and those leaked by earlier violating runs) is in the given state.
func allPrefixed(states []string, prefix string) bool {
	if len(states) == 0 {
		return false
	}
	for _, s := range states {
		if !strings.HasPrefix(s, prefix) {
			return false
		}
	}
	return true
}

// c20GiveUp is set when a run hit the wall-clock watchdog or too many runs ended in a wait-for cycle:
// the remaining cases of the shard are skipped (the verdict is already violated or inconclusive).
// typedAttrRe finds the values of attributes the Uniprot schema types as dates or numbers.
var typedAttrRe = regexp.MustCompile(`(?:created|modified|version|length|mass|id)="([^"]+)"`)

// c20DamageInTag is set by the corruption workload when the damaged byte lies between a '<' and its '>'.
var c20DamageInTag bool

var c20GiveUp bool
var c20Cycles int

// c20Mu guards the result record shared by the sequential consumer goroutine and its supervisor.
var c20Mu sync.Mutex

// c20SeqConsumer is the documented usage: drain entries until closed, then errors.
func c20SeqConsumer(entries <-chan uniprot.Entry, errs <-chan error, res *c20Result, phase *int32, fin chan<- struct{}) {
	for e := range entries {
		c20Mu.Lock()
		res.entries = append(res.entries, e)
		c20Mu.Unlock()
	}
	c20Mu.Lock()
	res.entriesClosed = true
	c20Mu.Unlock()
	atomic.StoreInt32(phase, 1)
	for err := range errs {
		c20Mu.Lock()
		if res.nErrors == 0 {
			res.firstErr = err.Error()
		}
		res.nErrors++
		c20Mu.Unlock()
	}
	c20Mu.Lock()
	res.errorsClosed = true
	c20Mu.Unlock()
	fin <- struct{}{}
}

// c20Snapshot copies the shared result under the lock.
func c20Snapshot(res *c20Result) c20Result {
	c20Mu.Lock()
	defer c20Mu.Unlock()
	out := *res
	out.entries = append([]uniprot.Entry(nil), res.entries...)
	return out
}

// c20Dump takes a goroutine dump of the whole process.
func c20Dump() string {
	buf := make([]byte, 1<<20)
	n := runtime.Stack(buf, true)
	for n == len(buf) && len(buf) < 1<<28 {
		buf = make([]byte, 2*len(buf))
		n = runtime.Stack(buf, true)
	}
	return string(buf[:n])
}

// c20SlowConcurrent makes the concurrent consumer of the current run pause between receives.
var c20SlowConcurrent bool

func runUniprot(r *rand.Rand, data []byte, concurrent bool, capE, capErr int, dribble int) c20Result {
	var res c20Result
	entries := make(chan uniprot.Entry, capE)
	errs := make(chan error, capErr)
	var rd io.Reader = bytes.NewReader(data)
	if dribble > 0 {
		rd = &dribbleReader{data: data, r: rand.New(rand.NewSource(r.Int63())), k: dribble, eofWith: r.Intn(2) == 0}
	}
	done := make(chan string, 1)
	// one concurrent consumer in eight attends to neither channel for 30 ms every few receives (a consumer doing
	// work of its own): the parser waits for it, with its entry or its error in hand
	c20SlowConcurrent = concurrent && r.Intn(8) == 0
	go func() { done <- mon.Try(func() { uniprot.Parse(rd, entries, errs) }) }()
	return superviseUniprot(entries, errs, done, concurrent, len(data), &res)
}

func superviseUniprot(entries chan uniprot.Entry, errs chan error, done chan string, concurrent bool, inputLen int, res *c20Result) c20Result {
	watchdog := time.After(60 * time.Second)
	bound := inputLen + 100
	if !concurrent {
		var phase int32
		fin := make(chan struct{}, 1)
		go c20SeqConsumer(entries, errs, res, &phase, fin)
		tick := time.NewTicker(2 * time.Millisecond)
		defer tick.Stop()
		consecutive, ticks := 0, 0
		returned, panicMsg := false, ""
		finish := func() c20Result {
			out := c20Snapshot(res)
			out.returned, out.panicMsg = returned, panicMsg
			return out
		}
		for {
			select {
			case <-fin:
				if !returned {
					select {
					case p := <-done:
						returned, panicMsg = true, p
					case <-time.After(5 * time.Second):
					}
				}
				return finish()
			case p := <-done:
				returned, panicMsg = true, p
				done = nil
				if p != "" {
					return finish()
				}
			case <-tick.C:
				ph := atomic.LoadInt32(&phase)
				if returned {
					// Parse is gone. If the consumer is parked on a channel that is open and empty, nothing can ever
					// wake it: that channel was left open. Decided on the goroutine's state, not on elapsed time.
					if (ph == 0 && len(entries) == 0) || (ph == 1 && len(errs) == 0) {
						cs := goroutineStates(c20Dump(), "props.c20SeqConsumer(")
						if allPrefixed(cs, "chan receive") && ((atomic.LoadInt32(&phase) == ph && ph == 0 && len(entries) == 0) || (atomic.LoadInt32(&phase) == ph && ph == 1 && len(errs) == 0)) {
							select {
							case <-fin: // it finished in the meantime
								return finish()
							default:
							}
							consecutive++
							if consecutive >= 3 {
								return finish() // entriesClosed / errorsClosed tell which channel stayed open
							}
							continue
						}
					}
					consecutive = 0
					continue
				}
				ticks++
				if ticks%50 == 0 && ((ph == 0 && len(entries) == 0) || (ph == 1 && len(errs) == 0)) {
					// a parser started by poly itself (uniprot.Read) cannot report its return: it has returned
					// once no goroutine of the process is inside uniprot.Parse any more
					if d := c20Dump(); !strings.Contains(d, "uniprot.Parse(") && !strings.Contains(d, "io/uniprot.Read") {
						returned = true
						continue
					}
				}
				if ph == 0 && cap(errs) > 0 && len(errs) == cap(errs) {
					dump := c20Dump()
					ps := goroutineStates(dump, "uniprot.Parse(")
					cs := goroutineStates(dump, "props.c20SeqConsumer(")
					if allPrefixed(ps, "chan send") && allPrefixed(cs, "chan receive") && len(errs) == cap(errs) {
						consecutive++
						if consecutive >= 3 {
							out := finish()
							out.waitForCycle = fmt.Sprintf("parser goroutine [%s] with %d/%d errors queued, consumer [%s] on the entry channel", ps[0], len(errs), cap(errs), cs[0])
							return out
						}
					} else {
						consecutive = 0
					}
				}
			case <-watchdog:
				out := finish()
				out.timedOut = true
				return out
			}
		}
	}
	// concurrent consumer
	eOpen, rOpen := true, true
	ec, rc := (<-chan uniprot.Entry)(entries), (<-chan error)(errs)
	for turn := 0; eOpen || rOpen; turn++ {
		if c20SlowConcurrent && turn%3 == 1 && turn < 40 {
			time.Sleep(30 * time.Millisecond)
		}
		select {
		case e, ok := <-ec:
			if !ok {
				eOpen, ec, res.entriesClosed = false, nil, true
				continue
			}
			res.entries = append(res.entries, e)
		case err, ok := <-rc:
			if !ok {
				rOpen, rc, res.errorsClosed = false, nil, true
				continue
			}
			if res.nErrors == 0 {
				res.firstErr = err.Error()
			}
			res.nErrors++
			if res.nErrors > bound {
				res.tooManyErrors = true
				return *res
			}
		case p := <-done:
			res.returned, res.panicMsg = true, p
			done = nil
			if p != "" {
				return *res
			}
			// drain what is buffered without blocking
			for {
				progressed := false
				if ec != nil {
					select {
					case e, ok := <-ec:
						progressed = true
						if !ok {
							eOpen, ec, res.entriesClosed = false, nil, true
						} else {
							res.entries = append(res.entries, e)
						}
					default:
					}
				}
				if rc != nil {
					select {
					case _, ok := <-rc:
						progressed = true
						if !ok {
							rOpen, rc, res.errorsClosed = false, nil, true
						} else {
							res.nErrors++
						}
					default:
					}
				}
				if !progressed {
					return *res
				}
			}
		case <-watchdog:
			res.timedOut = true
			return *res
		}
	}
	if done != nil {
		select {
		case p := <-done:
			res.returned, res.panicMsg = true, p
		case <-time.After(5 * time.Second):
		}
	}
	return *res
}

// c20Judge compares a run with what the stream states.
func c20Judge(w *mon.W, id, what string, data []byte, res c20Result, consumer string, capE, capErr int, damagePos int) {
	complete, ends, xerr := ownExtractEnds(data)
	rep := map[string]any{"stream": clip(string(data), 3000), "consumer": consumer, "cap_entries": capE, "cap_errors": capErr, "what": what}
	if res.timedOut {
		c20GiveUp = true
	}
	if res.waitForCycle != "" || res.tooManyErrors {
		if c20Cycles++; c20Cycles >= 40 {
			c20GiveUp = true // every further run would leak another blocked parser goroutine
		}
	}
	desc := fmt.Sprintf("%s, %s consumer, capacities %d/%d", what, consumer, capE, capErr)
	switch {
	case res.timedOut:
		w.Inconclusive(fmt.Sprintf("%s (%s): no verdict within the 60 s wall-clock watchdog", id, desc))
		return
	case res.panicMsg != "":
		w.Violation(id, fmt.Sprintf("uniprot.Parse %s (%s)", res.panicMsg, desc), rep)
		return
	case res.waitForCycle != "":
		w.Violation(id, fmt.Sprintf("wait-for cycle, the parser can never terminate (%s): %s; %d entries delivered, %d complete entries precede the damage", desc, res.waitForCycle, len(res.entries), len(complete)), rep)
		return
	case res.tooManyErrors:
		w.Violation(id, fmt.Sprintf("more than len(input)+100 = %d errors were reported without the parser terminating (%s); first: %s", len(data)+100, desc, res.firstErr), rep)
		return
	case !res.returned:
		w.Inconclusive(fmt.Sprintf("%s (%s): parser state unknown", id, desc))
		return
	case !res.entriesClosed || !res.errorsClosed:
		w.Violation(id, fmt.Sprintf("uniprot.Parse returned but left a channel open (entries closed %v, errors closed %v) (%s)", res.entriesClosed, res.errorsClosed, desc), rep)
		return
	}
	if xerr == nil && damagePos >= 0 && (res.nErrors >= 1 || c20DamageInTag) {
		// the damaged text is still well-formed XML but no longer a valid Uniprot stream (e.g. a damaged
		// attribute value) and the parser said so - or the damage lies inside a tag, where it can change what the
		// element is without making the text ill-formed (a '>' inside xmlns="..." moves the entry and its
		// children to another namespace; the harness's own reader ignores namespaces): only the entries
		// that end before the damage are compared
		n := 0
		for _, e := range ends {
			if e <= int64(damagePos) {
				n++
			}
		}
		complete = complete[:n]
		w.Add("damaged_but_wellformed_streams_with_error", 1)
		if len(res.entries) < n {
			w.Violation(id, fmt.Sprintf("%d complete entries precede the damage but only %d were delivered (%s)", n, len(res.entries), desc), rep)
			return
		}
	} else if xerr == nil {
		// well-formed: exactly those entries, in order
		if len(res.entries) != len(complete) {
			w.Violation(id, fmt.Sprintf("well-formed stream with %d entries: %d delivered (%s)", len(complete), len(res.entries), desc), rep)
			return
		}
		w.Add("wellformed_streams_judged", 1)
	} else {
		w.Add("damaged_streams_judged", 1)
		if len(res.entries) < len(complete) {
			w.Violation(id, fmt.Sprintf("%d complete entries precede the damage (%v) but only %d were delivered (%s)", len(complete), xerr, len(res.entries), desc), rep)
			return
		}
		if res.nErrors < 1 {
			w.Violation(id, fmt.Sprintf("damaged stream (%v) but no error was reported (%s)", xerr, desc), rep)
			return
		}
	}
	for i, e := range complete {
		if !sameEntry(e, res.entries[i]) {
			w.Violation(id, fmt.Sprintf("entry %d: stream states accessions %v names %v sequence %q, delivered %v %v %q (%s)", i, e.Acc, e.Names, clip(e.Seq, 30), res.entries[i].Accession, res.entries[i].Name, clip(res.entries[i].Sequence.Value, 30), desc), rep)
			return
		}
	}
	w.Add("entries_compared", int64(len(complete)))
}

func runC20(w *mon.W) {
	idx := 0
	tmp := filepath.Join(w.Dir, fmt.Sprintf("c20-%d", w.Shard))
	os.MkdirAll(tmp, 0755)
	defer os.RemoveAll(tmp)
	caps := []int{0, 1, 2, 5, 100}
	one := func(id, what string, r *rand.Rand, data []byte, mode int, damagePos int) {
		concurrent := mode%2 == 1
		capE := caps[r.Intn(len(caps))]
		capErr := 100
		if concurrent {
			capErr = caps[r.Intn(len(caps))]
		}
		dribble := []int{0, 0, 1, 13, 4096}[r.Intn(5)]
		res := runUniprot(r, data, concurrent, capE, capErr, dribble)
		cons := "sequential"
		if concurrent {
			cons = "concurrent"
			w.Add("concurrent_consumer_runs", 1)
		} else {
			w.Add("sequential_consumer_runs", 1)
		}
		w.Eval(true, mon.Hash64(string(data), cons, fmt.Sprint(capE, capErr)))
		w.SetAdd("consumer_configurations", fmt.Sprintf("%s capE=%d capErr=%d chunk=%d", cons, capE, capErr, dribble))
		c20Judge(w, id, what, data, res, cons, capE, capErr, damagePos)
	}

	// ---- well-formed documents
	nDocs := w.Pick(30, 300)
	for k := 0; k < nDocs; k++ {
		id := fmt.Sprintf("doc-%d", k)
		idx++
		if !w.Want(id, idx) || c20GiveUp {
			continue
		}
		r := w.Rand(id)
		n := r.Intn(w.Pick(21, 201))
		if k < 3 {
			n = k // 0, 1, 2 entries
		}
		es, doc := randUniprotDoc(r, n, false)
		w.Begin(id, clip(doc, 100000))
		if got, err := ownExtract([]byte(doc)); err != nil || len(got) != len(es) {
			w.SelfCheckFail(fmt.Sprintf("own reader on own document: %v, %d entries for %d", err, len(got), len(es)))
			w.End()
			continue
		} else {
			for i := range es {
				if strings.Join(es[i].Acc, "|") != strings.Join(got[i].Acc, "|") || strings.Join(es[i].Names, "|") != strings.Join(got[i].Names, "|") || es[i].Seq != got[i].Seq {
					w.SelfCheckFail("own reader does not recover the abstract entry")
				}
			}
		}
		w.Add("wellformed_documents", 1)
		w.Max("max_entries", int64(n))
		for mode := 0; mode < 2; mode++ {
			one(id, fmt.Sprintf("well-formed document with %d entries", n), r, []byte(doc), mode, -1)
		}
		// gzip through uniprot.Read with the documented consumer
		path := filepath.Join(tmp, "d.xml.gz")
		gzb := gzipBytes([]byte(doc))
		if k%3 == 2 && len(doc) > 2 {
			// a gzip file may consist of several members (RFC 1952 2.2; what `cat a.gz b.gz` and block
			// compressors write): the document is the concatenation of their contents
			gzb = nil
			cut := 0
			for m := 1 + r.Intn(3); m > 0 && cut < len(doc)-1; m-- {
				next := cut + 1 + r.Intn(len(doc)-cut-1)
				gzb = append(gzb, gzipBytes([]byte(doc[cut:next]))...)
				cut = next
			}
			gzb = append(gzb, gzipBytes([]byte(doc[cut:]))...)
			w.Add("multi_member_gzip_files", 1)
		}
		os.WriteFile(path, gzb, 0644)
		entries, errs, err := uniprot.Read(path)
		if err != nil {
			w.Violation(id, fmt.Sprintf("uniprot.Read: %v", err), nil)
		} else {
			var res c20Result
			done := make(chan string, 1) // Read runs Parse in its own goroutine; its return is not observable
			res = superviseUniprotRead(entries, errs, done, len(doc), &res)
			w.Add("gzip_Read_runs", 1)
			w.Add("sequential_consumer_runs", 1)
			w.Eval(true, mon.Hash64(doc, "Read"))
			c20Judge(w, id, fmt.Sprintf("gzip file with %d entries through uniprot.Read", n), []byte(doc), res, "sequential", cap(entries), cap(errs), -1)
		}
		w.End()
		if w.WantSample() && n == 1 {
			w.Sample(map[string]any{"case": id, "document": doc})
		}
	}

	// ---- every truncation offset of small documents
	nSmall := w.Pick(6, 60)
	for k := 0; k < nSmall; k++ {
		r0 := w.Rand(fmt.Sprintf("small-%d", k))
		_, doc := randUniprotDoc(r0, 1+k%4, true)
		if len(doc) > 1500 {
			_, doc = randUniprotDoc(r0, 1, true)
		}
		for off := 0; off <= len(doc); off++ {
			id := fmt.Sprintf("trunc-%d-%d", k, off)
			idx++
			if !w.Want(id, idx) || c20GiveUp {
				continue
			}
			r := w.Rand(id)
			data := []byte(doc[:off])
			w.Begin(id, string(data))
			one(id, fmt.Sprintf("document %d truncated at byte %d of %d", k, off, len(doc)), r, data, off+k, off)
			w.Add("truncation_offsets", 1)
			w.End()
		}
		if w.Shard == 0 {
			w.Add("documents_truncated_at_every_offset", 1)
			w.Max("max_truncated_document_bytes", int64(len(doc)))
		}
	}
	w.Extra("exhaustive_parts", []string{fmt.Sprintf("every truncation offset 0..len of %d small documents", nSmall)})

	// ---- truncated gzip streams
	nGz := w.Pick(60, 1500)
	for k := 0; k < nGz; k++ {
		id := fmt.Sprintf("gztrunc-%d", k)
		idx++
		if !w.Want(id, idx) || c20GiveUp {
			continue
		}
		r := w.Rand(id)
		_, doc := randUniprotDoc(r, 1+r.Intn(6), r.Intn(2) == 0)
		gzb := gzipBytes([]byte(doc))
		cut := 10 + r.Intn(len(gzb)-10)
		damaged := gzb[:cut]
		switch k % 4 {
		case 1: // inside the 8-byte trailer (CRC-32 + length): the whole document inflates, the stream is still damaged
			cut = len(gzb) - 1 - r.Intn(8)
			damaged = gzb[:cut]
			w.Add("gzip_trailer_truncations", 1)
		case 2: // a flipped bit in the trailer: complete XML, wrong checksum or length
			damaged = append([]byte(nil), gzb...)
			cut = len(gzb) - 1 - r.Intn(8)
			damaged[cut] ^= 1 << uint(r.Intn(8))
			w.Add("gzip_trailer_bit_flips", 1)
		}
		// what the harness's own gzip reader can still produce, and that it does report the damage
		var plain []byte
		if zr, err := gzip.NewReader(bytes.NewReader(damaged)); err == nil {
			var rerr error
			plain, rerr = io.ReadAll(zr)
			if rerr == nil {
				continue // not damaged after all (cannot happen for a cut; a flip always breaks CRC or length)
			}
		} else {
			continue
		}
		w.Begin(id, fmt.Sprintf("gzip of %d bytes damaged at %d; %d plain bytes recoverable", len(gzb), cut, len(plain)))
		path := filepath.Join(tmp, "t.xml.gz")
		os.WriteFile(path, damaged, 0644)
		entries, errs, err := uniprot.Read(path)
		if err == nil {
			var res c20Result
			res = superviseUniprotRead(entries, errs, make(chan string, 1), len(doc), &res)
			w.Add("gzip_truncations", 1)
			w.Add("sequential_consumer_runs", 1)
			w.Eval(true, mon.Hash64(string(damaged), "Read"))
			// the expected prefix is judged on the plain bytes the harness could recover; the stream is damaged for sure
			c20JudgeGz(w, id, plain, res, cut, len(gzb))
		}
		w.End()
	}

	// ---- corruptions of larger documents
	nCor := w.Pick(600, 20000)
	for k := 0; k < nCor; k++ {
		id := fmt.Sprintf("corrupt-%d", k)
		idx++
		if !w.Want(id, idx) || c20GiveUp {
			continue
		}
		r := w.Rand(id)
		_, doc := randUniprotDoc(r, 1+r.Intn(12), false)
		b := []byte(doc)
		first := strings.Index(doc, "<entry")
		last := strings.LastIndex(doc, "</entry>") + len("</entry>")
		kind := r.Intn(7)
		what := ""
		pos := first + r.Intn(last-first)
		switch kind {
		case 5: // damage inside a typed attribute value (a date, a number): first, last or inner character
			var spots []int
			for _, m := range typedAttrRe.FindAllStringSubmatchIndex(doc[first:last], -1) {
				spots = append(spots, first+m[2], first+m[3]-1, first+m[2]+(m[3]-m[2])/2)
			}
			if len(spots) == 0 {
				continue
			}
			pos = spots[r.Intn(len(spots))]
			if r.Intn(2) == 0 {
				pos = spots[3*r.Intn(len(spots)/3)+1] // the last character of a value
			}
			nb := " \tx0-9:"[r.Intn(7)]
			if r.Intn(2) == 0 {
				nb = " \t\n"[r.Intn(3)]
			}
			if b[pos] == nb {
				nb = ' '
			}
			what = fmt.Sprintf("byte %q at %d (inside a date or number attribute) replaced by %q", b[pos], pos, nb)
			b[pos] = nb
		case 6: // a predefined entity turned into a name XML does not declare (HTML has it): &lt; -> &le;, &amp; -> &nbsp;
			var spots [][2]int
			for _, ent := range []string{"&lt;", "&gt;", "&amp;"} {
				for from := first; ; {
					i := strings.Index(doc[from:last], ent)
					if i < 0 {
						break
					}
					spots = append(spots, [2]int{from + i, len(ent)})
					from += i + len(ent)
				}
			}
			if len(spots) == 0 {
				continue
			}
			sp := spots[r.Intn(len(spots))]
			pos = sp[0]
			repl := map[string][]string{"&lt;": {"&le;", "&lt", "&Lt;"}, "&gt;": {"&ge;", "&gg;"}, "&amp;": {"&nbsp;", "&alpha;", "&amp ", "&AMP;"}}[doc[pos:pos+sp[1]]]
			nw := repl[r.Intn(len(repl))]
			what = fmt.Sprintf("entity %s at %d replaced by %s", doc[pos:pos+sp[1]], pos, nw)
			b = append(b[:pos:pos], append([]byte(nw), b[pos+sp[1]:]...)...)
			pos++ // the damage lies inside the reference, after the '&'
		case 0: // delete a '<' or '>'
			for tries := 0; tries < 200 && b[pos] != '<' && b[pos] != '>'; tries++ {
				pos = first + r.Intn(last-first)
			}
			what = fmt.Sprintf("byte %q at %d deleted", b[pos], pos)
			b = append(b[:pos:pos], b[pos+1:]...)
		case 1: // insert a '<' or '>'
			c := "<>"[r.Intn(2)]
			what = fmt.Sprintf("%q inserted at %d", c, pos)
			b = append(b[:pos:pos], append([]byte{c}, b[pos:]...)...)
		case 2: // mismatched close tag
			i := strings.Index(doc[pos:], "</")
			if i < 0 {
				i = strings.Index(doc[first:], "</") - (pos - first)
			}
			pos += i
			what = fmt.Sprintf("close tag at %d renamed", pos)
			b = append(b[:pos+2:pos+2], append([]byte("x"), b[pos+2:]...)...)
		default: // flip a byte of text or of a tag name (not inside an attribute value)
			for tries := 0; tries < 500; tries++ {
				pos = first + r.Intn(last-first)
				lt, gt := strings.LastIndex(doc[:pos], "<"), strings.LastIndex(doc[:pos], ">")
				inTag := lt > gt
				if k%3 != 0 {
					// two thirds of the flips keep away from attributes; the rest may hit names and values (the document
					// then often stays well-formed; only the entries before the damage are compared, see c20DamageInTag)
					if inTag && strings.Count(doc[lt:pos], "\"")%2 == 1 {
						continue // inside an attribute value
					}
					if inTag && strings.ContainsAny(doc[lt:pos], " \n") {
						continue // attribute names / values region
					}
				}
				break
			}
			const repl = " abcXYZ<>&/\x00\xff 19-\t"
			nb := repl[r.Intn(len(repl))]
			what = fmt.Sprintf("byte %q at %d replaced by %q", b[pos], pos, nb)
			b[pos] = nb
		}
		lt, gt := strings.LastIndex(doc[:pos], "<"), strings.LastIndex(doc[:pos], ">")
		c20DamageInTag = lt > gt || doc[pos] == '<' || doc[pos] == '>'
		if c20DamageInTag {
			w.Add("corruptions_inside_a_tag", 1)
		}
		w.Begin(id, string(b))
		for mode := 0; mode < 2; mode++ {
			one(id, what, r, b, mode, pos)
		}
		c20DamageInTag = false
		w.Add("corruptions", 1)
		w.SetAdd("corruption_kinds", []string{"delete angle bracket", "insert angle bracket", "rename close tag", "flip byte", "flip byte", "damage a typed attribute", "rename an entity"}[kind])
		w.End()
	}
}

// superviseUniprotRead supervises channels returned by uniprot.Read (parser goroutine started by poly).
func superviseUniprotRead(entries chan uniprot.Entry, errs chan error, done chan string, inputLen int, res *c20Result) c20Result {
	// Parse's return is not observable here: treat "both channels closed" as returned
	out := superviseUniprot(entries, errs, done, false, inputLen, res)
	if out.entriesClosed && out.errorsClosed {
		out.returned = true
	}
	return out
}

func c20JudgeGz(w *mon.W, id string, plain []byte, res c20Result, cut, total int) {
	complete, _ := ownExtract(plain)
	desc := fmt.Sprintf("gzip stream of %d bytes cut at %d through uniprot.Read, documented consumer, capacities 100/100", total, cut)
	rep := map[string]any{"recoverable_plain_text": clip(string(plain), 3000)}
	switch {
	case res.timedOut:
		c20GiveUp = true
		w.Inconclusive(id + ": no verdict within the watchdog")
	case res.waitForCycle != "":
		if c20Cycles++; c20Cycles >= 40 {
			c20GiveUp = true
		}
		w.Violation(id, fmt.Sprintf("wait-for cycle, the parser can never terminate (%s): %s", desc, res.waitForCycle), rep)
	case !res.entriesClosed || !res.errorsClosed:
		w.Violation(id, fmt.Sprintf("a channel was left open (entries closed %v, errors closed %v) (%s)", res.entriesClosed, res.errorsClosed, desc), rep)
	case len(res.entries) < len(complete):
		w.Violation(id, fmt.Sprintf("%d complete entries precede the damage but only %d were delivered (%s)", len(complete), len(res.entries), desc), rep)
	case res.nErrors < 1:
		w.Violation(id, fmt.Sprintf("truncated gzip stream but no error was reported (%s)", desc), rep)
	default:
		for i, e := range complete {
			if !sameEntry(e, res.entries[i]) {
				w.Violation(id, fmt.Sprintf("entry %d differs from the stream (%s)", i, desc), rep)
				return
			}
		}
		w.Add("damaged_streams_judged", 1)
		w.Add("entries_compared", int64(len(complete)))
	}
}
