package props

import (
	"encoding/json"
	"math/rand"
	"sort"
	"strings"

	"github.com/TimothyStiles/poly/transform/codon"

	"verif/internal/oracle"
)

// tableIDs are the NCBI table ids poly offers.
var tableIDs = func() []int {
	var ids []int
	for _, g := range oracle.GeneticCodes {
		ids = append(ids, g.ID)
	}
	return ids
}()

// deepTable returns a deep copy of default table id that shares no memory with poly's package state.
func deepTable(id int) codon.Table {
	b, _ := json.Marshal(codon.GetCodonTable(id))
	return codon.ParseCodonJSON(b)
}

// plainTable is the harness's own view of a codon table: letter -> codon -> weight.
type plainTable struct {
	Starts, Stops []string
	AA            map[string]map[string]int
}

func snapshot(t codon.Table) plainTable {
	p := plainTable{Starts: append([]string(nil), t.StartCodons...), Stops: append([]string(nil), t.StopCodons...), AA: map[string]map[string]int{}}
	for _, a := range t.AminoAcids {
		m := map[string]int{}
		for _, c := range a.Codons {
			m[c.Triplet] += c.Weight
		}
		p.AA[a.Letter] = m
	}
	return p
}

// codonOwner maps codon -> letter for a table snapshot.
func (p plainTable) codonOwner() map[string]string {
	m := map[string]string{}
	for l, cs := range p.AA {
		for c := range cs {
			m[c] = l
		}
	}
	return m
}

func (p plainTable) letters() []string {
	var ls []string
	for l := range p.AA {
		ls = append(ls, l)
	}
	sort.Strings(ls)
	return ls
}

func (p plainTable) total(letter string) int {
	s := 0
	for _, w := range p.AA[letter] {
		s += w
	}
	return s
}

// eligible returns the codons of letter whose share among synonyms is above 10% (exact integers).
func (p plainTable) eligible(letter string) map[string]int {
	out := map[string]int{}
	tot := p.total(letter)
	for c, w := range p.AA[letter] {
		if w > 0 && 10*w > tot {
			out[c] = w
		}
	}
	return out
}

// codingSequenceFor builds a coding sequence in which codon c occurs exactly weights[c] times, shuffled.
func codingSequenceFor(r *rand.Rand, weights map[string]int) string {
	var cs []string
	keys := make([]string, 0, len(weights))
	for c := range weights {
		keys = append(keys, c)
	}
	sort.Strings(keys)
	for _, c := range keys {
		for i := 0; i < weights[c]; i++ {
			cs = append(cs, c)
		}
	}
	r.Shuffle(len(cs), func(i, j int) { cs[i], cs[j] = cs[j], cs[i] })
	return strings.Join(cs, "")
}

// countCodons is the oracle for re-weighting: in-frame, case-insensitive triplet counts.
func countCodons(seq string) map[string]int {
	m := map[string]int{}
	u := strings.ToUpper(seq)
	for i := 0; i+3 <= len(u); i += 3 {
		m[u[i:i+3]]++
	}
	return m
}
