package props

import (
	"fmt"
	"sort"
	"strings"

	"github.com/TimothyStiles/poly"

	"verif/internal/gen"
)

// compareGB compares what poly returned for a record with what the abstract record states.
// It returns the list of differing fields (empty = equal on everything the property names).
func compareGB(rec *gen.GBRecord, got poly.Sequence) []string {
	var d []string
	add := func(field, want, have string) {
		if want != have {
			d = append(d, fmt.Sprintf("%s: file states %q, parser returned %q", field, clip(want, 120), clip(have, 120)))
		}
	}
	if rec.Seq != got.Sequence {
		if len(rec.Seq) != len(got.Sequence) {
			d = append(d, fmt.Sprintf("sequence: %d letters in the file, %d returned", len(rec.Seq), len(got.Sequence)))
		} else {
			d = append(d, "sequence letters differ")
		}
	}
	l := got.Meta.Locus
	add("LOCUS name", rec.Name, l.Name)
	add("LOCUS length", fmt.Sprint(len(rec.Seq)), l.SequenceLength)
	add("LOCUS molecule type", rec.MolType, l.MoleculeType)
	add("LOCUS division", rec.Division, l.GenbankDivision)
	add("LOCUS date", rec.Date, l.ModificationDate)
	if (rec.Topology == "circular") != l.Circular || (rec.Topology == "linear") != l.Linear {
		d = append(d, fmt.Sprintf("LOCUS topology: file states %q, parser returned circular=%v linear=%v", rec.Topology, l.Circular, l.Linear))
	}
	add("DEFINITION", rec.Definition, got.Meta.Definition)
	add("ACCESSION", rec.Accession, got.Meta.Accession)
	add("VERSION", rec.Version, got.Meta.Version)
	add("KEYWORDS", rec.Keywords, got.Meta.Keywords)
	add("SOURCE", rec.Source, got.Meta.Source)
	add("ORGANISM", rec.Organism(), got.Meta.Organism)
	if len(rec.Refs) != len(got.Meta.References) {
		d = append(d, fmt.Sprintf("REFERENCE count: %d in the file, %d returned", len(rec.Refs), len(got.Meta.References)))
	} else {
		for i, r := range rec.Refs {
			g := got.Meta.References[i]
			p := fmt.Sprintf("REFERENCE %d ", i+1)
			add(p+"index", fmt.Sprint(i+1), g.Index)
			add(p+"range", r.Range, g.Range)
			add(p+"AUTHORS", r.Authors, g.Authors)
			add(p+"TITLE", r.Title, g.Title)
			add(p+"JOURNAL", r.Journal, g.Journal)
			add(p+"PUBMED", r.PubMed, g.PubMed)
			add(p+"REMARK", r.Remark, g.Remark)
		}
	}
	wantOther := map[string]string{}
	for _, e := range rec.Extras {
		wantOther[e.Key] = e.Text
	}
	var keys []string
	for k := range wantOther {
		keys = append(keys, k)
	}
	for k := range got.Meta.Other {
		if _, ok := wantOther[k]; !ok {
			keys = append(keys, k)
		}
	}
	sort.Strings(keys)
	for _, k := range keys {
		w, okW := wantOther[k]
		g, okG := got.Meta.Other[k]
		switch {
		case okW && !okG:
			d = append(d, fmt.Sprintf("keyword block %s is missing", k))
		case !okW && okG:
			d = append(d, fmt.Sprintf("keyword block %q = %q is not in the file", k, clip(g, 80)))
		default:
			add("keyword block "+k, w, g)
		}
	}
	if len(rec.Features) != len(got.Features) {
		d = append(d, fmt.Sprintf("feature count: %d in the file, %d returned", len(rec.Features), len(got.Features)))
		return d
	}
	for i, f := range rec.Features {
		g := got.Features[i]
		p := fmt.Sprintf("feature %d (%s %s) ", i, f.Key, clip(f.Loc.String(), 40))
		add(p+"key", f.Key, g.Type)
		add(p+"location text", f.Loc.String(), g.GbkLocationString)
		want := map[string]string{}
		for _, q := range f.Quals {
			want[q.Key] = q.Value
		}
		var qk []string
		for k := range want {
			qk = append(qk, k)
		}
		for k := range g.Attributes {
			if _, ok := want[k]; !ok {
				qk = append(qk, k)
			}
		}
		sort.Strings(qk)
		for _, k := range qk {
			w, okW := want[k]
			h, okG := g.Attributes[k]
			switch {
			case okW && !okG:
				d = append(d, p+fmt.Sprintf("qualifier /%s is missing", k))
			case !okW && okG:
				d = append(d, p+fmt.Sprintf("qualifier %q = %q is not in the file", k, clip(h, 80)))
			default:
				add(p+"qualifier /"+k, w, h)
			}
		}
	}
	return d
}

func joinDiffs(d []string, max int) string {
	if len(d) > max {
		return strings.Join(d[:max], " | ") + fmt.Sprintf(" | ... (%d differences)", len(d))
	}
	return strings.Join(d, " | ")
}
