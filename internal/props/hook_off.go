//go:build !verif

package props

import "github.com/TimothyStiles/poly"

// HookAvailable is false when the binary was built without the verif tag.
const HookAvailable = false

func hookParseLocation(s string) poly.Location { panic("hook unavailable") }
