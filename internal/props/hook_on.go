//go:build verif

package props

import (
	"github.com/TimothyStiles/poly"
	"github.com/TimothyStiles/poly/io/genbank"
)

// HookAvailable reports that the verif-tagged export in io/genbank compiled.
const HookAvailable = true

func hookParseLocation(s string) poly.Location { return genbank.VerifParseLocation(s) }
