// Package props holds one monitor (workload + oracle wiring) per property.
package props

import (
	"fmt"
	"math/rand"
	"strings"
	"sync"

	"verif/internal/mon"
)

// nthString returns the idx-th string of length n over alphabet (base-k digits, most significant first).
func nthString(alphabet string, n int, idx int64) string {
	k := int64(len(alphabet))
	b := make([]byte, n)
	for i := n - 1; i >= 0; i-- {
		b[i] = alphabet[idx%k]
		idx /= k
	}
	return string(b)
}

func ipow(b, e int) int64 {
	r := int64(1)
	for i := 0; i < e; i++ {
		r *= int64(b)
	}
	return r
}

func randString(r *rand.Rand, alphabet string, n int) string {
	b := make([]byte, n)
	for i := range b {
		b[i] = alphabet[r.Intn(len(alphabet))]
	}
	return string(b)
}

// randCase flips each letter to lower case with probability p.
func randCase(r *rand.Rand, s string, p float64) string {
	b := []byte(s)
	for i, c := range b {
		if c >= 'A' && c <= 'Z' && r.Float64() < p {
			b[i] = c + 32
		}
	}
	return string(b)
}

// randCaseBlocks lower-cases whole stretches of s (soft-masked regions): an upper-case head of 0..n letters,
// then blocks of alternating case with lengths drawn up to maxBlock.
func randCaseBlocks(r *rand.Rand, s string, maxBlock int) string {
	b := []byte(s)
	lower := r.Intn(2) == 0
	for i := 0; i < len(b); {
		n := 1 + r.Intn(maxBlock)
		if i == 0 && r.Intn(2) == 0 {
			n = 61 + r.Intn(200) // a long head in one case
		}
		for j := i; j < i+n && j < len(b); j++ {
			if lower && b[j] >= 'A' && b[j] <= 'Z' {
				b[j] += 32
			} else if !lower && b[j] >= 'a' && b[j] <= 'z' {
				b[j] -= 32
			}
		}
		i += n
		lower = !lower
	}
	return string(b)
}

// caseEdges writes s in one case except for a head, a tail or a short stretch in the other (cloning notation:
// lower-case flanks around an upper-case insert, an appended lower-case tag or stop codon, one marked site).
func caseEdges(r *rand.Rand, s string) string {
	if len(s) == 0 {
		return s
	}
	b := []byte(strings.ToUpper(s))
	lo := func(from, to int) {
		for j := from; j < to && j < len(b); j++ {
			if b[j] >= 'A' && b[j] <= 'Z' {
				b[j] += 32
			}
		}
	}
	switch r.Intn(5) {
	case 0: // a short lower-case tail
		lo(len(b)-1-r.Intn(min(9, len(b))), len(b))
	case 1: // a lower-case head of any length, the rest upper case
		lo(0, 1+r.Intn(len(b)))
	case 2: // everything lower case except a tail
		k := r.Intn(len(b))
		lo(0, len(b)-k)
	case 3: // one short lower-case stretch somewhere
		at := r.Intn(len(b))
		lo(at, at+1+r.Intn(12))
	default: // upper-case insert between lower-case flanks
		a := r.Intn(len(b))
		c := a + r.Intn(len(b)-a)
		lo(0, a)
		lo(c, len(b))
	}
	if r.Intn(4) == 0 { // the same pattern with the cases exchanged
		for j := range b {
			switch {
			case b[j] >= 'a' && b[j] <= 'z':
				b[j] -= 32
			case b[j] >= 'A' && b[j] <= 'Z':
				b[j] += 32
			}
		}
	}
	return string(b)
}

func rotate(s string, k int) string {
	if len(s) == 0 {
		return s
	}
	k %= len(s)
	return s[k:] + s[:k]
}

func clip(s string, n int) string {
	if len(s) <= n {
		return s
	}
	return fmt.Sprintf("%s...(%d bytes)", s[:n], len(s))
}

func allSame(s string) bool {
	return len(s) == 0 || strings.Count(s, s[:1]) == len(s)
}

func tierShards(q, t int) func(string) int {
	return func(tier string) int {
		if tier == "thorough" {
			return t
		}
		return q
	}
}

func tierSecs(q, t int) func(string) int {
	return func(tier string) int {
		if tier == "thorough" {
			return t
		}
		return q
	}
}

// ---- retained results ---------------------------------------------------------
// A string (or byte slice) poly returned must keep its value whatever poly is asked to do later
// (a result that aliases pooled or reused memory reads differently after a later call). The last
// few results per key are kept together with a private copy and re-compared on every later call.

type retainedResult struct {
	orig, copy, what string
}

var (
	retainMu   sync.Mutex
	retainRing = map[string][]retainedResult{}
)

// retainCheck re-inspects the retained results of key and then retains s.
func retainCheck(w *mon.W, id, key, s, what string) {
	retainMu.Lock()
	defer retainMu.Unlock()
	ring := retainRing[key]
	for i, r := range ring {
		if r.orig != r.copy {
			w.Violation(id, fmt.Sprintf("the string returned by an earlier call (%s) changed after later calls: it read %q and now reads %q", r.what, clip(r.copy, 150), clip(r.orig, 150)), nil)
			ring[i].copy = string(append([]byte(nil), r.orig...))
		}
	}
	if len(ring) > 0 {
		w.Add("earlier_results_reinspected", int64(len(ring)))
	}
	if len(s) == 0 || len(s) > 1<<20 {
		return
	}
	ring = append(ring, retainedResult{orig: s, copy: string(append([]byte(nil), s...)), what: clip(what, 160)})
	if len(ring) > 4 {
		ring = ring[1:]
	}
	retainRing[key] = ring
}

type retainedBytes struct {
	orig []byte
	copy string
	what string
}

var retainBytesRing = map[string][]retainedBytes{}

// retainBytesCheck is retainCheck for byte slices poly returned (the slice itself is kept, not a copy).
func retainBytesCheck(w *mon.W, id, key string, b []byte, what string) {
	retainMu.Lock()
	defer retainMu.Unlock()
	ring := retainBytesRing[key]
	for i, r := range ring {
		if string(r.orig) != r.copy {
			w.Violation(id, fmt.Sprintf("the bytes returned by an earlier call (%s) changed after later calls: they read %q and now read %q", r.what, clip(r.copy, 150), clip(string(r.orig), 150)), nil)
			ring[i].copy = string(r.orig)
		}
	}
	if len(ring) > 0 {
		w.Add("earlier_results_reinspected", int64(len(ring)))
	}
	if len(b) == 0 || len(b) > 1<<20 {
		return
	}
	ring = append(ring, retainedBytes{orig: b, copy: string(b), what: clip(what, 160)})
	if len(ring) > 4 {
		ring = ring[1:]
	}
	retainBytesRing[key] = ring
}
