#!/bin/bash
# Entry point of every MANIFEST command.
#   ./run.sh <ID> <quick|thorough>   rebuild the monitor against /repo's working tree, run the check
#   ./run.sh replay <path>           re-run the single case of a replay file
#   ./run.sh build                   build both binaries (setup)
# VERIF_REPO=<dir> points the build at another copy of poly (mutant validation only).
cd "$(dirname "$0")" || exit 2
export GOFLAGS=-mod=mod GOPROXY=off GOSUMDB=off GOTOOLCHAIN=local CGO_ENABLED=1
export VERIF_DIR="$PWD"
mkdir -p .build .work

RACE_PROPS=" C08 C09 C13 C20 "
REPO="${VERIF_REPO:-/repo}"
MODARGS=()
SUFFIX=""
if [ "$REPO" != "/repo" ]; then
  sed "s#=> /repo#=> $REPO#" go.mod > .build/alt.go.mod
  cp go.sum .build/alt.go.sum
  MODARGS=(-modfile="$PWD/.build/alt.go.mod")
  SUFFIX="-alt"
fi

build() { # $1 = race|plain, $2 = cover (optional): statement coverage of the poly packages, thorough tier
  local out=".build/vcheck$SUFFIX" flags=()
  if [ "$1" = race ]; then out=".build/vcheck-race$SUFFIX"; flags=(-race); fi
  if [ "${2:-}" = cover ]; then
    local pk
    pk=$(go list "${MODARGS[@]}" github.com/TimothyStiles/poly/... 2>/dev/null | grep -v -e '/cmd/poly$' -e '/poly/io$' | tr '\n' ',' | sed 's/,$//')
    if [ -n "$pk" ]; then out="$out-cover"; flags+=(-cover "-coverpkg=./...,$pk"); fi
  fi
  if go build "${MODARGS[@]}" -tags verif "${flags[@]}" -o "$out" ./cmd/vcheck 2> .build/build-$1.err; then
    echo "$out"; return 0
  fi
  # the hook file may no longer compile after a refactoring of poly: fall back to the public API
  if go build "${MODARGS[@]}" "${flags[@]}" -o "$out" ./cmd/vcheck 2> .build/build-$1-nohook.err; then
    echo "note: built without the verif hook (tagged build failed)" >&2
    echo "$out"; return 0
  fi
  cat .build/build-$1-nohook.err >&2
  return 1
}

case "${1:-}" in
  build)
    build plain >/dev/null || exit 2
    build race >/dev/null || exit 2
    echo "built"; exit 0 ;;
  replay)
    id=$(sed -n 's/.*"property": *"\(C[0-9]*\)".*/\1/p' "$2" | head -1)
    kind=plain; case "$RACE_PROPS" in *" $id "*) kind=race;; esac
    bin=$(build $kind) || { echo "INCONCLUSIVE property=$id reason=build failed"; exit 2; }
    exec "$bin" replay "$2" ;;
  C[0-9]*)
    id="$1"; tier="${2:-quick}"
    kind=plain; case "$RACE_PROPS" in *" $id "*) kind=race;; esac
    # statement coverage in the thorough tier, except for the race-detector builds: counters that are updated
    # atomically on every basic block make a -race binary several times slower (C09 thorough: 4 min -> over 50 min)
    cover=""; if [ "$tier" = thorough ] && [ "$kind" = plain ] && [ -z "${VERIF_NOCOVER:-}" ]; then cover=cover; fi
    bin=$(build $kind $cover) || { echo "INCONCLUSIVE property=$id reason=build of poly or harness failed"; exit 2; }
    if [ -n "$cover" ]; then export VERIF_COVER=1 GOCOVERDIR="$PWD/.work/cov-parent-$$"; mkdir -p "$GOCOVERDIR"; "$bin" check "$id" "$tier"; rc=$?; rm -rf "$GOCOVERDIR"; exit $rc; fi
    exec "$bin" check "$id" "$tier" ;;
  *)
    echo "usage: ./run.sh <ID> <quick|thorough> | replay <path> | build"; exit 2 ;;
esac
