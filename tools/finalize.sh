#!/bin/bash
# tools/finalize.sh : refresh every evidence file from a quick run at seed 1 against /repo, validate manifest and evidence
# against the schemas, run the repository's own suite with the hook guard off.
cd "$(dirname "$0")/.." || exit 2
python3 tools/mkmanifest.py || exit 1
python3 tools/seedtable.py
unset VERIF_SEED VERIF_REPO
tools/sweep.sh quick 1 | tee .work/finalize.log | grep -v " rc=0 " 
echo "non-zero exits: $(grep -c -v ' rc=0 ' .work/finalize.log)"
python3-vt - <<'PY'
import json, jsonschema, glob
jsonschema.validate(json.load(open('MANIFEST.json')), json.load(open('/root/.vp/MANIFEST.schema.json')))
s = json.load(open('/root/.vp/EVIDENCE.schema.json'))
m = json.load(open('MANIFEST.json'))
for c in m['checks']:
    e = json.load(open(c['evidence_file']))
    jsonschema.validate(e, s)
    assert e['property_id'] == c['property_id'] and e['tier'] == 'quick' and e['violations'] == 0, c['property_id']
    assert e['level'] == c['level_claimed']['category'], (c['property_id'], e['level'])
print('manifest and', len(m['checks']), 'evidence files valid')
PY
( cd /repo && GOFLAGS=-mod=mod GOPROXY=off GOSUMDB=off GOTOOLCHAIN=local go test -vet=off -count=1 ./... 2>&1 | grep -v '^ok' ; echo "repo suite done" )
git -C /repo status --short | head -3
