#!/usr/bin/env python3
"""Regenerates /verif/MANIFEST.json from the table below (run after adding a check)."""
import json, os, subprocess

RACE = {"C08", "C09", "C13", "C20"}
# id -> (level category, technique, level text, level note, design ref)
CHECKS = {
 "C01": ("exploration", "reference-model monitor: independent writer -> real parser -> field-by-field comparison with the abstract record",
         "Files are laid out from abstract records by an independent GenBank writer (release-notes columns, randomised legal layout) and pushed through Parse / ParseMulti / ParseFlat / Read* (temp files, gzip); every field the property names is compared with the abstract record; multi-record files also against each record parsed alone. 20,000 files per quick run, 500,000 (incl. 10^5-base sequences) per thorough run; results of earlier calls are re-inspected after later calls.",
         "trusts the harness writer; it is cross-checked on every file by the harness's own column-based reader (gbread(gbwrite(R)) == R), a failed self-check is inconclusive, never a violation", "5 C01"),
 "C02": ("exploration", "reference-model monitor with a complete small space; strict INSDC parser over written locations",
         "Every operator shape with <= 3 operators over a 6-base parent with all 27 leaves (shapes of <= 3 leaves complete, larger ones sampled) and 200,000 (quick) / 4,000,000 (thorough) random expressions are evaluated through the text parser, through assembled structures in two normal forms, and written back and re-read by a strict INSDC parser; writing must not alter the structure.",
         "oracle: own INSDC printer/parser/evaluator; hook genbank.VerifParseLocation (verif tag) as accelerator, a sample of every run goes through genbank.Parse; known finding K2 (a..b>) matched by signature only", "5 C02"),
 "C03": ("exploration", "round-trip monitor + independent column-based reader + byte-level determinism over repeated builds",
         "Records from the parser image and assembled structures are built 20 times (byte comparison, map-rich records), parsed back by poly and read by an independent column-based reader; earlier outputs are re-checked after later builds; a sample goes through Write/Read.",
         "independent reader written from the GenBank release notes; semantic location equality; known findings K2 and K3 matched by signature only", "5 C03"),
 "C04": ("exploration", "reference-model monitor over enumerated and random executions",
         "Every seqhash.Hash call on the complete ACGT space to length 7 (quick) / 9 (thorough), IUPAC space to length 3/4, in all four flag combinations, in lower/mixed case and in RNA spelling, is compared with the digest of an independent canonical form; random inputs to 10^5 bases with explicit rotation / reverse-complement / case / RNA calls. Held on the executions observed; complete for the enumerated spaces.",
         "trusts the harness oracle (brute-force / two-pointer least rotation, own IUPAC complement) and lukechampine blake3 as digest primitive (self-checked against published vectors)", "5 C04"),
 "C05": ("exploration", "reference-model monitor; partition comparison on a complete small space",
         "Value compared with 'v1_'+tag+'_'+hex(BLAKE3(canonical form)) for complete ACGT and protein-alphabet spaces; hash partition compared with the brute-force orbit partition in one process; every invalid single byte per type, unknown types and double-stranded proteins must be rejected.",
         "BLAKE3 collision resistance outside the explored set; documented alphabets are the specification of 'accepted'", "5 C04/C05"),
 "C06": ("exploration", "reference-model monitor, complete for the table clause",
         "All 25 tables x 64 codons x 8 casings and the start/stop lists are compared with an independently transcribed NCBI code (standard code + differences); random strings are split at every codon boundary; strings returned earlier are re-inspected after later calls; every table is verified again after it went through the library's JSON writer and reader and after Compromise/Add/OptimizeTable/Optimize ran on tables from GetCodonTable.",
         "trusts the harness transcription of the NCBI genetic codes (agrees with the tree on all 1600 entries, so a one-letter slip on either side is a disagreement)", "5 C06"),
 "C07": ("exploration", "reference-model monitor + Hoeffding-bounded frequency test",
         "Optimize on all 25 default tables and on tables re-weighted with forced 0 / exactly-10% / just-above weights: length, back-translation by the table's own assignment, eligibility of every emitted codon in exact integers, errors (not crashes) for unencodable residues, generator outputs, in-place re-weighting histories, and codon frequencies over 10^5 (quick) / 10^6 (thorough) draws per amino acid against a Hoeffding band.",
         "proportionality is statistical: false-alarm probability < 1e-9 per run, resolution = band half-width reported in evidence", "5 C07"),
 "C08": ("exploration", "history monitor against a value-semantics model (invariant at every step boundary) + race detector",
         "Every operation sequence up to length 4 on two table ids of different genetic codes (complete DFS; add also across codes) and random histories of length 5..8 on three ids; after every step every live table is read back and compared with the value model; a mismatch is attributed to known finding K1 only if it equals the aliasing defect model. Counting clause on deep copies, incl. series of same-length sequences in freshly allocated strings; in every child process the first use of the package is one goroutine per default table requesting it at the same moment; 16 goroutines re-weight tables of distinct ids under -race; a call parked for good is decided by goroutine states (stall detector).",
         "the receiver of OptimizeTable is not inspected again (documented in-place mutation); compromise values are C18's subject", "5 C08"),
 "C09": ("exploration", "result-set monitor against rings known by construction and a sequential enumeration, under the race detector with GOMAXPROCS and scheduler perturbation; bounded-progress (allocation budget, all-blocked snapshot, resident-memory cap) monitor for termination",
         "Designed pools (1..6 junctions, 1..3 alternatives per slot, flipped fragments, shuffled input, dead-end decoys incl. ones entering the ring) are ligated by CircularLigate and, rendered as linear/circular BsaI/BbsI/BtgZI carrier parts, by GoldenGate at GOMAXPROCS 1, 2, 16 with >= 20 calls each under -race; the returned set of molecules (own canonical form) must equal the designed set on every call, no molecule twice; arrival orders observed are counted. Calls are also made after a call on a prefix of the same slice and after a reaction with a second enzyme on the same parts. Termination pools (lollipops, shared junctions, back edges, random overhang graphs) must return within an allocation budget with every simple ring and otherwise only closed walks that use each supplied fragment at most as often as supplied.",
         "termination restated as bounded progress over allocated bytes and goroutine states, not wall-clock; schedules are sampled, not enumerated", "5 C09"),
 "C10": ("exploration", "reference-model monitor (modular-arithmetic Type IIS geometry) with complete rotation sweeps of small plasmids",
         "CutWithEnzyme / CutWithEnzymeByName (directional) on generated layouts (20..3000 bases, 0..6 sites of either orientation, BsaI, BbsI, BtgZI and custom non-palindromic enzymes, linear and circular, random letter case, sites whose cut would need bases beyond the ends of linear parts) compared as fragment multisets with an independent geometric model; every rotation of every generated circular plasmid of 20..300 bases is digested and compared with the same multiset.",
         "model cross-checked per case against a naive linear evaluator on a safely linearised rotation and against the generator's list of placed sites; layouts outside the property's stated restrictions are redrawn, not judged", "5 C10"),
 "C13": ("exploration", "round-trip and re-layout monitor + producer/consumer event-sequence monitor under the race detector",
         "Record lists (sequences to 300,000 letters incl. the 64 KiB boundary lengths) through Build -> Parse, Write -> Read, gzip -> ReadGz and through re-layouts by the harness's own writer (wrap width, blank lines, ';' comments, CRLF); ParseConcurrent runs in a harness goroutine with channel capacities 0..1000, PRNG-stalled consumers and dribbling readers: the received sequence must equal the list and the channel must be closed exactly once; an order-stress series (short records, capacities 0..8, a consumer spinning briefly per record); a parser parked for good is decided by goroutine states; race reports are violations.",
         "closed-exactly-once decided without blocking after the producer returned; wall-clock watchdog only yields inconclusive", "5 C13"),
 "C15": ("exploration", "round-trip monitor with INSDC oracle for feature sequences",
         "Generated annotated sequences (every field populated, location trees to depth 4, empty/absent collections, non-ASCII and <>& text) and parser outputs over generated GenBank and GFF files go through JSON -> polyjson.Parse and Write -> Read; every field is compared, feature sequences are re-evaluated by the INSDC oracle after reading, and GenBank/GFF text built after the round trip must equal the direct build; earlier values are re-inspected after later calls.",
         "nil and empty collections are equal", "5 C15"),
 "C20": ("fault_enumeration", "producer/consumer event monitor with goroutine-state sampling (wait-for cycle detection) under the race detector; complete enumeration of truncation offsets",
         "Documents by the harness's own Uniprot XML writer, plain and gzip; truncation at every byte offset of small documents (complete), gzip-stream truncation, tag/bracket corruption and byte flips; sequential (documented) and concurrent consumers with channel capacities 0..100 and dribbling readers: entries before the damage arrive in order, at least one and a bounded number of errors, both channels closed, no persistent wait-for cycle, no race report.",
         "bounded progress instead of termination: event-count bound and wait-for-cycle detection by runtime.Stack sampling; wall-clock watchdog only yields inconclusive; well-formedness of damaged text decided by the harness's own encoding/xml token loop", "5 C20"),
 "C11": ("exploration", "reference-model monitor with complete small spaces",
         "Reverse complement, complement, reverse, palindrome test and IUPAC expansion are compared with base-set semantics on every IUPAC string to length 4 (quick) / 5 (thorough), mixed case to length 2/3, all split points, random strings to 10^4, and sparse-ambiguity strings of 65..600 bases; strings returned earlier are re-inspected after later calls.",
         "oracle derives complements and expansions from NC-IUB base sets", "5 C11"),
 "C12": ("exploration", "reference-model monitor with complete small spaces",
         "RotateSequence compared with brute-force least rotation on all strings over alphabets of size 2/3/4 to length 17/11/9 (quick) or 21/13/11 (thorough) and with an independent two-pointer scan on structured strings to 10^5 / 10^6 characters, each with a random rotation.",
         "two independent oracles cross-checked on every short string", "5 C12"),
 "C14": ("exploration", "round-trip monitor + independent GFF3 writer and reader",
         "Every sequence length 1..300 (all residues modulo 70, several times) and random lengths to 5000, attribute values with blanks at their ends: gff.Build -> gff.Parse, gff.Build -> own reader, own writer (shuffled attributes, FASTA width 1..200) -> gff.Parse; parsed features must report bases start..end of the file's sequence.",
         "oracle: the input record and the harness's own slicing", "5 C14"),
 "C16": ("exploration", "reference-model monitor over generated listings + the distributed sample",
         "Generated format-31 listings (blank- or tab-indented supplier table, 0..300 records, empty fields) and the distributed sample read by the harness's own reader are compared field by field with rebase.Parse/Read; Export must unmarshal back to the same map and bytes returned by earlier Export calls are re-inspected after later calls.",
         "nil/empty/[\"\"] are equal for empty list fields", "5 C16"),
 "C17": ("exploration", "definition-based monitor over random and adversarial calls",
         "Every De Bruijn order 1..11 is checked window by window, orders 1..10 are requested again in turn; barcode lists from random and adversarially ordered ban / filter lists are checked for length, substring-ness, n-mer disjointness, bans, reverse complements and filters; one request in four follows another request on the same ban and filter slices.",
         "reference De Bruijn sequence for the substring clause is poly's own output validated in the same run", "5 C17"),
 "C18": ("exploration", "reference-model monitor with exact integer/rational arithmetic",
         "25 codes x table pairs re-weighted from constructed coding sequences x a cut-off grid containing 0, 1, their neighbours and realised shares +/- 1.5/10000: sums, means (+/-1 on integer-scaled shares), zeroing below the cut-off, symmetry, range errors, unchanged genetic code and inputs, and Optimize on the compromise table; each pair is then re-weighted in place and combined again.",
         "tolerances as stated by the property", "5 C18"),
 "C19": ("exploration", "reference-model monitor, complete for short oligos",
         "SantaLucia Tm/dH/dS compared (rel. 1e-9) with an independent implementation for every oligo of length 2..7 (quick) / 2..8 (thorough) on a concentration grid whose lines double as monotonicity chains; MeltingTemp and MarmurDoty compared with their definitions.",
         "nearest-neighbour parameters transcribed by pair class; monotonicity asserted only inside the duplex-forming regime", "5 C19"),
}
PENDING = {}

def main():
    here = os.path.dirname(os.path.dirname(os.path.abspath(__file__)))
    props = [json.loads(l) for l in open(os.path.join(here, "properties.jsonl"))]
    checks, na = [], []
    for p in props:
        pid = p["id"]
        if pid in CHECKS:
            cat, tech, text, note, ref = CHECKS[pid]
            checks.append({
                "property_id": pid,
                "quick_cmd": f"./run.sh {pid} quick",
                "thorough_cmd": f"./run.sh {pid} thorough",
                "evidence_file": f"/verif/evidence/{pid}.json",
                "replay_cmd_template": "./run.sh replay {path}",
                "engine": "vcheck-race" if pid in RACE else "vcheck",
                "level_claimed": {"category": cat, "text": text, "design_ref": "DESIGN.md section " + ref},
                "level_note": note,
                "technique": tech,
            })
        else:
            na.append({"property_id": pid, "reason": PENDING.get(pid, "monitor not built yet in this round (planned, see DESIGN.md section 5); not claimed until its check exists")})
    hooks_commit = subprocess.run(["git", "-C", "/repo", "log", "--format=%H", "--grep=^verif hook", "-n", "5"], capture_output=True, text=True).stdout.split()
    m = {
        "version": 1,
        "setup_cmd": "./run.sh build",
        "hooks": {
            "guard": "verif (Go build tag)",
            "enable": "go build -tags verif (run.sh builds cmd/vcheck with `replace github.com/TimothyStiles/poly => /repo`, so poly is compiled from /repo's working tree on every invocation)",
            "baseline_off_cmd": "cd /repo && GOFLAGS=-mod=mod GOPROXY=off GOSUMDB=off GOTOOLCHAIN=local go test -vet=off -count=1 ./...",
            "source_commits": hooks_commit,
            "add_only": True,
        },
        "engines": [
            {"name": "vcheck", "path": "/verif/cmd/vcheck", "serves_properties": sorted(k for k in CHECKS if k not in RACE),
             "kind_free_text": "parent/child runtime monitor: journalled child processes run the real poly code on generated workloads, reference-model oracles (internal/oracle, no poly imports) judge every execution"},
            {"name": "vcheck-race", "path": "/verif/cmd/vcheck", "serves_properties": sorted(k for k in CHECKS if k in RACE),
             "kind_free_text": "same binary built with -race (Go race detector + checkptr); GORACE logs are parsed and de-duplicated by entry-point pair"},
        ],
        "checks": checks,
        "not_applicable": na,
        "notes": "Exit codes: 0 held on everything observed, 1 violation (VIOLATION line + replay file), 2 inconclusive (watchdog, build failure, too few events, harness self-check). Known findings: /verif/KNOWN_FINDINGS.txt.",
    }
    json.dump(m, open(os.path.join(here, "MANIFEST.json"), "w"), indent=1)
    print("MANIFEST.json:", len(checks), "checks,", len(na), "not_applicable")

main()
