#!/usr/bin/env python3
"""Prints the prompt given to a mutation sub-agent for one property (only the property text + its worktree)."""
import json, sys
pid = sys.argv[1]
k0 = int(sys.argv[2]) if len(sys.argv) > 2 else 1
flavour = sys.argv[3] if len(sys.argv) > 3 else ''
for l in open('/verif/properties.jsonl'):
    p = json.loads(l)
    if p['id'] == pid:
        break
wt = f"/tmp/mut/wt-{pid}"
out = f"/tmp/mut/out/{pid}"
print(f"""You are working in a scratch git worktree of the Go library TimothyStiles/poly at {wt} (a synthetic-biology library: GenBank/GFF/FASTA parsers, codon tools, seqhash, primers, cloning simulation). Work ONLY inside {wt} and write results ONLY to {out}. Do not read or touch /repo or /verif.

Environment: no network. Before any go command run: export GOFLAGS=-mod=mod GOPROXY=off GOSUMDB=off GOTOOLCHAIN=local
The existing test suite is `go test -vet=off -count=1 ./...` (run from {wt}); it currently passes.

Here is a semantic property of the library that is supposed to hold:

TITLE: {p['title']}
STATEMENT: {p['statement']}
SCOPE (inputs/schedules it quantifies over): {p['quantifier']['text']}
Relevant source files: {', '.join(p['anchors']['files'])}

TASK: produce TWO different, independent, realistic changes to the library's non-test source (the kind of thing a plausible refactoring, optimisation, clean-up or bug-fix-gone-wrong would introduce) that each BREAK this property for inputs inside the stated scope, while the code still compiles and the existing test suite still passes, unedited. Prefer subtle changes that need something specific to manifest (an unusual input, a particular interleaving or consumer speed, a crash or fault at a particular point, a multi-step sequence of operations, or two cooperating sites that each look fine alone) - NOT ones that ordinary use would expose at once, and not trivially "return garbage". The two changes should break different aspects/clauses of the property or different code sites. {flavour}

For each change k in ({k0}, {k0+1}) deliver in {out}:
  - m<k>.diff : the change as a unified diff produced by `git diff` in the worktree root (must apply with `git apply m<k>.diff` to a clean checkout of the current HEAD). Only library source, no test files.
  - m<k>_demo_test.go : a self-contained Go test file (external test package or the package's own, your choice) that FAILS with the change applied and PASSES without it. State in the json where it must be placed.
  - m<k>.json : {{"property": "{pid}", "summary": "<what the change does>", "needs": "<what specific input/schedule/sequence is needed for the violation to manifest>", "demo_pkg_dir": "<directory relative to repo root where the demo test file must be copied>", "demo_run": "<go test command, run from repo root, that runs only the demo>"}}

Verify all of this yourself before finishing: (a) with the change applied the whole suite still passes and the demo fails; (b) without the change the demo passes. When done, leave the worktree clean (`git checkout -- .` and delete any files you added, including the demo test). Never use `git stash` (the stash is shared between worktrees of one repository; use `git diff > file` and `git apply` / `git apply -R` instead). Wrap every test run in `timeout 300` (and `ulimit -v 8000000` for non-race runs) - a broken change may never return or may allocate memory very fast. Reply with a 3-line summary per change.""")
