#!/bin/bash
# tools/reseed.sh [tier] [pattern] : re-run every seeded change (seeded/<ID>-m<k>/patch.diff) against the current checks.
# One scratch worktree per change under /tmp/mut, removed afterwards; evidence files are restored from git.
cd "$(dirname "$0")/.." || exit 2
tier=${1:-quick}; pat=${2:-}
export GOFLAGS=-mod=mod GOPROXY=off GOSUMDB=off GOTOOLCHAIN=local
mkdir -p /tmp/mut
missed=0
for d in seeded/*${pat}*/; do
  name=$(basename $d); id=${name%%-*}
  WT=/tmp/mut/reseed-$name
  git -C /repo worktree remove --force $WT 2>/dev/null
  git -C /repo worktree add --detach $WT HEAD -q || { echo "$name worktree failed"; continue; }
  if ! git -C $WT apply $PWD/$d/patch.diff 2>/dev/null; then echo "$name PATCH-DOES-NOT-APPLY"; git -C /repo worktree remove --force $WT; continue; fi
  out=$(VERIF_REPO=$WT VERIF_NOCOVER=1 timeout 3600 ./run.sh $id $tier 2>&1); rc=$?
  git -C /repo worktree remove --force $WT
  if [ $rc -eq 1 ]; then echo "$name caught: $(echo "$out" | grep -A1 '^VIOLATION' | grep 'case=' | head -1 | cut -c1-160)";
  else echo "$name MISSED (exit $rc)"; missed=$((missed+1)); fi
done
git checkout -- evidence 2>/dev/null
rm -rf replays
echo "missed=$missed"
