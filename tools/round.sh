#!/bin/bash
# tools/round.sh prepare <k0> <flavour-file> <ID...>   - scratch worktrees + prompts for a round of seeded-change sub-agents
# tools/round.sh eval <k0> <ID...>                     - confirm and run the checks against m<k0>, m<k0+1> of every ID
# tools/round.sh clean <ID...>                         - remove the scratch worktrees
cd "$(dirname "$0")/.." || exit 2
cmd=$1; shift
case $cmd in
prepare)
  k0=$1; fl=$(cat "$2"); shift 2
  for id in "$@"; do
    git -C /repo worktree remove --force /tmp/mut/wt-$id 2>/dev/null
    git -C /repo worktree add --detach /tmp/mut/wt-$id HEAD -q
    mkdir -p /tmp/mut/out/$id
    python3 tools/mutprompt.py $id $k0 "$fl" > /tmp/mut/prompt-$id.txt
  done ;;
eval)
  k0=$1; shift
  for id in "$@"; do for k in $k0 $((k0+1)); do
    [ -f /tmp/mut/out/$id/m$k.json ] || { echo "== $id m$k: not delivered"; continue; }
    out=$(tools/trymut.sh $id $k quick 2>&1)
    echo "== $id m$k: $(echo "$out" | grep -E 'NOT CONF|check exit|does not apply' | tr '\n' ' ') $(echo "$out" | grep 'case=' | head -1 | cut -c1-150)"
  done; done
  rm -rf replays ;;
clean)
  for id in "$@"; do git -C /repo worktree remove --force /tmp/mut/wt-$id 2>/dev/null; done; git -C /repo worktree prune ;;
esac
