#!/usr/bin/env python3
"""Rewrites the seeded-change table in DESIGN.md (between the seeded-table markers) from /verif/seeded/*/meta.json."""
import json, glob, os, re
here = os.path.dirname(os.path.dirname(os.path.abspath(__file__)))
rows = []
for d in sorted(glob.glob(os.path.join(here, "seeded", "*"))):
    m = json.load(open(os.path.join(d, "meta.json")))
    name = os.path.basename(d)
    summ = re.sub(r"\s+", " ", m.get("summary", "")).strip()
    if len(summ) > 230:
        summ = summ[:227] + "..."
    needs = re.sub(r"\s+", " ", m.get("needs", "")).strip()
    if len(needs) > 200:
        needs = needs[:197] + "..."
    det = "caught (%s tier)" % m.get("tier", "quick") if m.get("detected") else "MISSED"
    if m.get("strengthened"):
        det += "; " + m["strengthened"]
    by = m.get("caught_by", "")
    rows.append("| %s | %s | %s | %s%s |" % (name, summ.replace("|", "/"), needs.replace("|", "/"), det, (" - " + by) if by else ""))
table = "| change | what it does | what it needs to manifest | result of `./run.sh <ID> <tier>` against the changed tree |\n|---|---|---|---|\n" + "\n".join(rows) + "\n"
# per-round summary
FLAVOURS = {1: "free choice of a realistic breaking change", 2: "changes that need something specific to manifest",
            7: "the corners of the stated scope", 8: "pairwise combinations of input features", 9: "defects that need two operations composed",
            10: "maintenance refactors and performance optimisations",
            11: "schedule-dependent defects (C08, C09, C13, C20); the border between accepted and rejected inputs (others)", 12: "calls that do not come back (loops, deadlocks, blow-ups)",
            13: "real-world constructs of the file formats (parsers); defects that are intermittent for one and the same input (others)", 14: "results that satisfy a weaker reading of a clause (strength of the oracle)",
            15: "needle triggers: conjunctions of three conditions, dependent fields, mid-range magnitudes"}
FLAVOURS[16] = "needle triggers, second time"
FLAVOURS[18] = "real-world constructs of the file formats and of cloning practice, second time (ten properties)"
FLAVOURS[19] = "constructs of laboratory practice (genes, vectors, primers, real codon usage), the ten other properties"
FLAVOURS[20] = "needle triggers, third time (eight properties)"
FLAVOURS[21] = "needle triggers, third time (eight other properties)"
FLAVOURS[17] = "schedule-dependent defects (C08, C09, C13, C20) and composed operations (eight others), second time"
for _k in (3, 4, 5, 6):
    FLAVOURS[_k] = "as round 2, with changing emphasis: state kept between calls (caches, pools), block and buffer sizes, less-travelled entry points, the clauses a harness is least likely to exercise"
per = {}
for d in glob.glob(os.path.join(here, "seeded", "*")):
    m = json.load(open(os.path.join(d, "meta.json")))
    k = int(re.search(r"-m(\d+)$", os.path.basename(d)).group(1))
    rnd = 16 if k in (33, 34) else {18: 17, 19: 18, 20: 19, 21: 20, 22: 21}.get((k + 1) // 2, (k + 1) // 2)
    t = per.setdefault(rnd, [0, 0])
    t[0] += 1
    if m.get("strengthened") or not m.get("detected"):
        t[1] += 1
rt = "| round | what the sub-agents were asked for | changes kept | of these missed by the check as it was (then strengthened) |\n|---|---|---|---|\n"
for rnd in sorted(per):
    rt += "| %d | %s | %d | %d |\n" % (rnd, FLAVOURS.get(rnd, ""), per[rnd][0], per[rnd][1])
rt += "| all | | %d | %d |\n" % (sum(v[0] for v in per.values()), sum(v[1] for v in per.values()))
p = os.path.join(here, "DESIGN.md")
s = open(p).read()
rb, re_ = "<!-- seeded-rounds-begin -->\n", "<!-- seeded-rounds-end -->"
if rb in s:
    i, j = s.index(rb) + len(rb), s.index(re_)
    s = s[:i] + rt + s[j:]
b, e = "<!-- seeded-table-begin -->\n", "<!-- seeded-table-end -->"
i, j = s.index(b) + len(b), s.index(e)
open(p, "w").write(s[:i] + table + s[j:])
print(len(rows), "rows")
