#!/usr/bin/env python3
"""Rewrites the seeded-change table in DESIGN.md (between the seeded-table markers) from /verif/seeded/*/meta.json."""
import json, glob, os, re
here = os.path.dirname(os.path.dirname(os.path.abspath(__file__)))
rows = []
for d in sorted(glob.glob(os.path.join(here, "seeded", "*"))):
    m = json.load(open(os.path.join(d, "meta.json")))
    name = os.path.basename(d)
    summ = re.sub(r"\s+", " ", m.get("summary", "")).strip()
    if len(summ) > 230:
        summ = summ[:227] + "..."
    needs = re.sub(r"\s+", " ", m.get("needs", "")).strip()
    if len(needs) > 200:
        needs = needs[:197] + "..."
    det = "caught (%s tier)" % m.get("tier", "quick") if m.get("detected") else "MISSED"
    if m.get("strengthened"):
        det += "; " + m["strengthened"]
    by = m.get("caught_by", "")
    rows.append("| %s | %s | %s | %s%s |" % (name, summ.replace("|", "/"), needs.replace("|", "/"), det, (" - " + by) if by else ""))
table = "| change | what it does | what it needs to manifest | result of `./run.sh <ID> <tier>` against the changed tree |\n|---|---|---|---|\n" + "\n".join(rows) + "\n"
p = os.path.join(here, "DESIGN.md")
s = open(p).read()
b, e = "<!-- seeded-table-begin -->\n", "<!-- seeded-table-end -->"
i, j = s.index(b) + len(b), s.index(e)
open(p, "w").write(s[:i] + table + s[j:])
print(len(rows), "rows")
