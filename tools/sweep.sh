#!/bin/bash
# tools/sweep.sh <tier> <seed...> : run every registered check at the given seeds, one line per run.
cd "$(dirname "$0")/.." || exit 2
tier=${1:-quick}; shift
seeds=${@:-1}
for seed in $seeds; do
  for id in $(jq -r '.checks[].property_id' MANIFEST.json); do
    start=$(date +%s)
    out=$(VERIF_SEED=$seed ./run.sh $id $tier 2>&1); rc=$?
    echo "seed=$seed $id rc=$rc $(( $(date +%s) - start ))s $(echo "$out" | grep -E '^(HELD|VIOLATED|INCONCLUSIVE) ' | cut -c1-160)"
    if [ $rc -ne 0 ]; then echo "$out" | grep -E "^(VIOLATION|INCONCLUSIVE|  case)" | cut -c1-400 | head -6; fi
  done
done
