#!/bin/bash
# tools/trymut.sh <PROP> <k> [tier]  - confirm a sub-agent's change (suite passes, demo fails with / passes without),
# then run the property's check against the changed tree (scratch worktree + VERIF_REPO) and record the outcome
# under /verif/seeded/<PROP>-m<k>/.
set -u
ID=$1; K=$2; TIER=${3:-quick}
SRC=/tmp/mut/out/$ID
WT=/tmp/mut/eval-$ID-$K
export GOFLAGS=-mod=mod GOPROXY=off GOSUMDB=off GOTOOLCHAIN=local
cd /verif
[ -f $SRC/m$K.diff ] || { echo "no $SRC/m$K.diff"; exit 2; }
git -C /repo worktree remove --force $WT 2>/dev/null
git -C /repo worktree add --detach $WT HEAD -q || exit 2
cleanup() { git -C /repo worktree remove --force $WT 2>/dev/null; rm -rf $WT; }
trap cleanup EXIT
PKG=$(python3 -c "import json;print(json.load(open('$SRC/m$K.json'))['demo_pkg_dir'])")
RUN=$(python3 -c "import json;print(json.load(open('$SRC/m$K.json'))['demo_run'])")
cp $SRC/m${K}_demo_test.go $WT/$PKG/ || exit 2
( cd $WT && timeout 600 bash -c "$RUN" > /tmp/mut/eval-$ID-$K.clean.log 2>&1 ); CLEAN=$?
( cd $WT && git apply $SRC/m$K.diff ) || { echo "patch does not apply"; exit 2; }
( cd $WT && timeout 600 bash -c "$RUN" > /tmp/mut/eval-$ID-$K.mut.log 2>&1 ); MUT=$?
rm -f $WT/$PKG/m${K}_demo_test.go
( cd $WT && timeout 900 go test -vet=off -count=1 ./... > /tmp/mut/eval-$ID-$K.suite.log 2>&1 ); SUITE=$?
echo "demo on clean tree: exit $CLEAN (want 0); demo with change: exit $MUT (want !=0); suite with change: exit $SUITE (want 0)"
if [ $CLEAN -ne 0 ] || [ $MUT -eq 0 ] || [ $SUITE -ne 0 ]; then echo "NOT CONFIRMED"; exit 3; fi
VERIF_REPO=$WT timeout 3600 ./run.sh $ID $TIER > /tmp/mut/eval-$ID-$K.check.log 2>&1; CHECK=$?
grep -E "^(VIOLATION|HELD|VIOLATED|INCONCLUSIVE|KNOWN)" /tmp/mut/eval-$ID-$K.check.log | cut -c1-300 | head -6
grep -A1 "^VIOLATION" /tmp/mut/eval-$ID-$K.check.log | grep "case=" | head -2 | cut -c1-300
echo "check exit: $CHECK"
D=/verif/seeded/$ID-m$K
mkdir -p $D
cp $SRC/m$K.diff $D/patch.diff
cp $SRC/m${K}_demo_test.go $D/demo_test.go
python3 - <<PY
import json
m=json.load(open('$SRC/m$K.json'))
m.update({"breaks_property":"$ID","confirmed":{"demo_on_clean_tree_exit":$CLEAN,"demo_with_change_exit":$MUT,"suite_with_change_exit":$SUITE},
 "what_i_ran":"tools/trymut.sh $ID $K $TIER: scratch worktree of /repo HEAD, demo test before/after git apply, unedited suite with the change, then VERIF_REPO=<worktree> ./run.sh $ID $TIER",
 "check_exit":$CHECK,"detected":$CHECK==1,"tier":"$TIER",
 "first_violation":open('/tmp/mut/eval-$ID-$K.check.log', errors='replace').read().split('VIOLATION',1)[-1][:400] if $CHECK==1 else ""})
json.dump(m,open('$D/meta.json','w'),indent=1)
PY
# evidence files must describe /repo, not the mutant: re-run nothing here, caller restores evidence via git
git checkout -- evidence/$ID.json 2>/dev/null
exit 0
